#!/usr/bin/env python3
# Fills seeded/<id>/meta.json "detected_by" from the log of tools/seedrun.sh (/tmp/seedrun.<id>.<prop>.log).
# usage: tools/filldetected.py <letter>...   (e.g. N O)
import json, glob, re, sys, os
letters = ''.join(sys.argv[1:])
for f in sorted(glob.glob('/verif/seeded/C*-[%s]/meta.json' % letters)):
    m = json.load(open(f))
    sid, prop = m['id'], m['breaks_property']
    log = '/tmp/seedrun.%s.%s.log' % (sid, prop)
    if not os.path.exists(log):
        print(sid, 'no log'); continue
    t = open(log).read()
    if 'VIOLATION property=%s' % prop not in t:
        print(sid, 'NOT CAUGHT'); continue
    sigs = sorted(set(re.findall(r'^\s+signature: (\S+)', t, re.M)))
    m['detected_by'] = {'check': './check %s quick' % prop, 'signatures': sigs[:6]}
    json.dump(m, open(f, 'w'), indent=1, ensure_ascii=False)
    print(sid, len(sigs))
