#!/bin/bash
# Runs every seeded change against the quick check of its property; prints one line per seed.
cd /verif
for d in seeded/C*/; do
  s=$(basename $d)
  tools/seedrun.sh $s quick 2>&1 | head -1
done
