#!/bin/bash
# usage: tools/seedrun.sh <seed-id> [tier] [property]
# Applies /verif/seeded/<seed-id>/patch.diff to /repo, runs the check of the property it breaks
# (or the given property), and always reverts /repo afterwards.
SEED=${1:?seed id}; TIER=${2:-quick}; PROP=${3:-${SEED%%-*}}
cd /verif
if ! git -C /repo diff --quiet; then echo "/repo has uncommitted changes, refusing"; exit 3; fi
git -C /repo apply /verif/seeded/$SEED/patch.diff || exit 3
trap 'git -C /repo checkout -- . ; git -C /repo clean -fdq; git -C /verif checkout -- evidence/$PROP.json' EXIT
VERIF_SEEDRUN=1 ./check $PROP $TIER > /tmp/seedrun.$SEED.$PROP.log 2>&1
rc=$?
grep -c '^VIOLATION' /tmp/seedrun.$SEED.$PROP.log | sed "s/^/$SEED $PROP $TIER exit=$rc violations=/"
grep -m3 'signature:' /tmp/seedrun.$SEED.$PROP.log
tail -1 /tmp/seedrun.$SEED.$PROP.log
