#!/bin/bash
# usage: tools/sweep.sh <tier> <seed>... ; runs every check at every seed, one line per run; restores evidence afterwards
TIER=$1; shift
cd /verif
for seed in "$@"; do
  for p in C01 C02 C03 C04 C05 C06 C07 C08 C09 C10 C11 C12 C13 C14 C15 C16 C17 C18 C19 C20; do
    out=$(VERIF_SEED=$seed ./check $p $TIER 2>&1); rc=$?
    echo "seed=$seed $p rc=$rc $(echo "$out" | grep -c '^VIOLATION') viol | $(echo "$out" | grep -E 'tier=' | tail -1 | cut -c1-160)"
    if [ $rc -ne 0 ]; then echo "$out" | grep -E 'VIOLATION|INCONCLUSIVE|signature' | head -5; mkdir -p /tmp/sweepkeep; cp -r replay/$p /tmp/sweepkeep/$p.seed$seed 2>/dev/null; fi
  done
done
git checkout -- evidence
