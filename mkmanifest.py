#!/usr/bin/env python3
"""Generates MANIFEST.json from the table below (run after adding a check)."""
import json, subprocess

# id -> (technique, level text, level note, design ref)
CHECKS = {
 "C11": ("Go race detector over a concurrent workload (race-instrumented worker processes, reports counted and de-duplicated) + serial-result comparison of every concurrent Execute + porcupine v1.3.0 linearizability check of recorded register histories (globals, development-mode templates)",
         "Exploration: rounds of 16-32 goroutines issuing random GetTemplate/Parse/Execute/AddGlobal/LookupGlobal/loader-edit operations on one Set, with colliding first-time loads, struct types minted per execution (field-cache writes concurrent with reads), ranger pools, includes (cache puts during execution) and a recording loader/cache that yields or sleeps inside every call. Deciding observations: race-detector reports, fatal errors, every concurrent output versus the output computed alone, and linearizability of the timed write/read history per key.",
         "Covers the interleavings the scheduler produced (the evidence counts overlapping operation pairs and colliding first loads), not all interleavings; porcupine timeouts and rounds without overlap are inconclusive, not held.",
         "DESIGN.md 3/C11"),
 "C18": ("differential twins: the same program written with custom functions calling the Runtime/Arguments API and with template syntax must render identically (output, errors, block rendering log)",
         "Exploration: random programs whose operations are emitted twice (Let/Set/SetOrLet/LetGlobal/Resolve/Context/YieldBlock from jet.Funcs versus :=, =, identifiers, '.', yield) nested in if, range, block definitions, includes and try; LetGlobal'd names are read right after the call, after the enclosing constructs ended and at the end; call shapes (plain, piped, slot at every index) given to a reflected function and to jet.Funcs reading Get, NumOfArguments, IsSet and ParseInto.",
         "Let twins only where the enclosing list already opened a scope; block bodies use names of their own (dynamic block scoping is a design choice outside the statement); YieldBlock on parameterless blocks.",
         "DESIGN.md 3/C18"),
 "C14": ("metamorphic monitor with recorded call log: every surface form of a call intent must render and call exactly like the plain call; built-ins compared differentially with the Go functions they expose",
         "Exploration: call intents over reflected fixed-arity and variadic funcs, value/pointer methods and a jet.Func, with arguments needing conversion, printed in parenthesised, prefix, piped and slot forms (slot at every position incl. the variadic tail); pipelines of 2-4 stages against nested plain calls; 26 directed error cases; differential runs of every documented built-in against the Go function.",
         "Trusts the recorded call log (arguments as received by the Go callables). Non-integral numeric arguments to int parameters are not generated.",
         "DESIGN.md 3/C14"),
 "C06": ("reference-resolver monitor: generated access paths into generated Go data graphs (unique leaf tokens) resolved by plain reflect following Go's rules and compared with what the template renders",
         "Exploration: random walks of 1-6 steps (field, bracket, index with literal/variable, key, slice, method call) over a graph covering every data shape the property names, rooted at a pointer, a value, the context, a struct type minted at run time (fresh field cache) or an interface container; half the paths get one step corrupted at a random depth; all index values in [-1,len+1] and all slice bound pairs in [-1,len+2]^2 are enumerated for every sequence field. Value -> rendered leaf token equals the stored one; nil -> empty/<nil>; error -> Execute returns an error without panicking. A directed probe reaches for a name promoted from two embedded structs at one depth (no field: must fail by dot, bracket, through pointer and interface, from a cold and a warm field cache) and for the unambiguous members beside it.",
         "Trusts reflect (FieldByName depth rule, method sets, MapIndex, bounds) as the definition of the stored value. Shapes the statement leaves open are discarded and counted; indexing the result of a slice expression is not expressible in jet's grammar.",
         "DESIGN.md 3/C06"),
 "C17": ("reference-resolver monitor for isset() and the two-value map lookup over the data graphs and access paths of C06",
         "Exploration: isset with 1-4 generated arguments (valid, corrupted at any depth, through or ending in nil pointers/maps/slices/interfaces, computed index expressions incl. ones raising Go runtime errors, unhashable keys), call and piped forms; 30 (map,key) pairs x 3 assignment forms for v, ok := m[k]. Execute must never fail, isset must be true exactly when the resolver finds every argument existing and non-nil, ok must equal key presence.",
         "isset arguments are limited to the expression kinds the documentation names (identifier, field, chain, index).",
         "DESIGN.md 3/C17"),
 "C04": ("typed reference evaluator + probe call log over generated expression trees, each rendered in four surface forms (minimal parentheses, no spaces, and/or/not, redundant parentheses)",
         "Exploration: type-directed random trees (depth <=5) over every operator family and operand kind (float literals, Go ints of several widths, uint on the right (and, in a directed case, uint/uint8/uint64 on the left of a floating-point operand), float32/64, strings, bools, calls, index expressions), printed with only the parentheses the documented ladder needs; value, cross-form equality and the order/multiplicity of side-effecting probe operands must match the model; 6 directed cases pin the documented examples.",
         "Trusts the 150-line typed evaluator. Shapes the statement does not type (% with non-integral operands, int==non-integral float, division by zero, unsigned left operands with negative values, asymmetric spacing) are not generated or are discarded and counted.",
         "DESIGN.md 3/C04"),
 "C10": ("history monitor with fresh-state reference: every Execute of a history on one locked OS thread (pooled Runtime provably reused) compared with the same call executed right after draining the pools; reflective hash of every parsed template before/after",
         "Exploration: histories of 8-32 Execute calls over generated programs that may fail anywhere plus fixed templates failing deep inside yield-with-content/if-let/range (error, function error, string panic escaping Execute), writers failing mid-output, and probe templates exposing '.', yield content, isset() of earlier names, try and block defaults. Each call's bytes and error must equal its fresh-state reference; template trees must hash the same afterwards. The evidence reports how often consecutive executions saw the same *Runtime (the run is inconclusive below 50%).",
         "Needs the verif hook VerifDrainPools for an exact fresh state (fallback: two GC cycles). Deterministic programs only (single-entry maps, fresh channels and VarMaps per execution). Not run under -race.",
         "DESIGN.md 3/C10"),
 "C01": ("taint accounting on the output stream under three Set escapers (default HTML, nil, tagging SafeWriter); comparison with the reference evaluator's escaped-exactly-once output",
         "Exploration: generated template sets render data of 17 kinds (specials, NUL, multi-byte runes, values straddling the 4096-byte print buffer) at value sites in every context the property names, as plain actions or ending in a SafeWriter in piped/prefix/call form. For each of the three escaper configurations the real output must equal text verbatim + escaper(value) + writer(value); the tagging escaper makes unescaped, doubly escaped, truncated or reordered values visible byte for byte. Directed: a SafeWriter that is not last must be an error.",
         "Trusts the reference evaluator for control flow and Go's template.HTMLEscapeString/JSEscapeString as the whole-value form of the SafeWriters. Renderer values and rune-aware writers on values longer than the print buffer are out of scope.",
         "DESIGN.md 3/C01"),
 "C12": ("failure-injection monitor: one failing action per class planted at a random position of a generated template set; returned error, its (file:line) and the bytes in the writer compared with the reference evaluator",
         "Exploration: 77 failure classes x random positions (any statement list of the executed, an included, an imported or an extended template; nesting depth 0-4; random blank lines, multi-line comments and trim markers as layout noise). Execute must return an error and not panic, the message must carry the file and 1-based line of the failing action for the classes jet detects itself, and the writer must hold exactly the output up to the failing action.",
         "Trusts the reference evaluator for which actions run before the failure. Errors raised inside jet.Func built-ins are the recorded known finding K3.",
         "DESIGN.md 3/C12"),
 "C09": ("reference-evaluator monitor for include/includeIfExists/exec call sites plus a probe-log oracle for exec return values (value == last return recorded in the observed call log)",
         "Exploration: generated sets with include/exec/includeIfExists sites at depth <=3 (inside range, blocks, try, other includes; static, computed and per-iteration names; with/without context; targets extending 1-2 levels) compared with the model, which inlines the target's root ancestor in a fresh scope with includer variables and blocks visible; 2500 generated exec targets per run with returns at every position, decided from the observed probe log without modelling which returns run.",
         "Trusts the reference evaluator for include semantics; for exec values only the recorded call log is trusted. Failures after a return inside the same try body are not generated (unspecified).",
         "DESIGN.md 3/C09"),
 "C05": ("reference-evaluator monitor: generated if/range programs executed by the real engine and by an independent model; output, errors, probe call log and caller VarMap compared",
         "Exploration: nestings of if/else-if/else and range (all three variable forms, := and =, else branches) over every rangeable kind, with conditions of every kind (42 opaque conditions of known truthiness incl. fractional floats, narrow ints, interfaces holding false/0/\"\"), compared byte for byte with the reference evaluator.",
         "Trusts the reference evaluator (internal/prog, ~600 lines, itself validated against the unchanged tree on >10^5 programs). Multi-entry maps are left to the directed self-consistency cases of C07; zero-valued arrays/structs as conditions are not generated.",
         "DESIGN.md 3/C05"),
 "C07": ("reference-evaluator monitor over generated scoping programs plus directed capture cases decided by self-consistency; caller VarMap inspected after Execute; secondary: hook snapshots (scope depth/identity, context, content, writer) before and after every wrapped construct must be equal",
         "Exploration: programs mixing :=, =, multi-assignment and discard at every depth of if/range/block/yield/include with names planted at every resolution level and shadowed, loop variables captured and read later, '.' printed around every construct; 72 directed cases capture key/value/'.' of every ranger kind (incl. multi-entry maps) in iteration 1 or 2 and require the same value after the loop.",
         "Trusts the reference evaluator. Assignment to Set globals/built-ins and block bodies reading the yielder's locals are design choices outside the statement and are not generated.",
         "DESIGN.md 3/C07"),
 "C08": ("reference-evaluator monitor over generated template sets (extends chains, import lists, overlapping block names)",
         "Exploration: acyclic sets with extends depth 0-3 and up to 3 libraries imported at any level, 5 shared block names, yields with named arguments in any order, defaults, contexts, content bodies reading caller variables that the block shadows; the rendered output (unique token per file/block/site) must equal the model's, which computes the effective block table as extended chain < imports in order < own.",
         "Trusts the reference evaluator; positional yield arguments, yield content in blocks yielded without content and content reading block parameters are not generated (DESIGN 2.4).",
         "DESIGN.md 3/C08"),
 "C13": ("reference-evaluator monitor over generated try/catch programs with failures planted below state-changing constructs; secondary: hook snapshots of the interpreter state before and after every wrapped try/range/yield/include must be equal",
         "Exploration: try bodies failing at depth <=4 below range, if-let, yield with parameters/content, include and inner try, with and without catch/catch variable; the output before, inside and after every try (context, variables, isset of names declared inside, yielded content) must equal the model's all-or-nothing semantics.",
         "Trusts the reference evaluator; the catch variable's printed form is not compared (only that it is set inside catch and unset afterwards).",
         "DESIGN.md 3/C13"),
 "C15": ("recording Loader/Cache wrappers observing every path argument; comparison with an independent canonicalisation of the spelling; canary file outside a directory-rooted loader",
         "Exploration: one reference per case through each of 9 entry points (GetTemplate, extends, import, include static/computed, exec static/computed, includeIfExists) from referrers at depth 0-3, with adversarial spellings and 5 extension lists; every path the Set hands to Loader and Cache is observed and must be clean and equal to the canonical path, probed in extension order; the rendered output identifies the file actually used; an OS-rooted Set must never read a canary outside its root.",
         "Trusts path.Clean as the definition of lexically clean and the in-memory/OS loaders (C19). Backslash spellings are outside what Linux can exercise.",
         "DESIGN.md 3/C15"),
 "C16": ("sequential history checking against an executable model: recorded Loader/Cache traces, template pointer identity and rendered version tokens per operation",
         "Exploration: random histories of GetTemplate/Parse/Execute(include) interleaved with edits, deletions and injected loader faults, under development/normal mode, default/recording cache and 5 extension lists; after every operation the exact loader trace, the Put list, pointer identity and the rendered versions must equal the model's prediction.",
         "Requested names are bare base names; the aliasing between a name and name+extension is the recorded known finding K2 (directed case 0). Trusts the 60-line model.",
         "DESIGN.md 3/C16"),
 "C19": ("history checking against executable models: recorded Set/Delete/edit/AddLoaders histories on each bundled loader, every query compared with a model (cleaned-path map, the directory tree, first holder)",
         "Exploration: random histories per loader kind; for the file-system loaders every file, directory and missing path of a generated tree is queried after every edit; for the in-memory loader all operations use adversarial spellings of a few canonical paths; for multi, loaders overlap, are added mid-history and are edited between Exists and Open.",
         "Trusts os/http.Dir/embed.FS and the 10-line models. Only clean absolute paths are used for the file-system loaders, as the property states.",
         "DESIGN.md 3/C19"),
 "C20": ("visit-multiset monitor: node pointers from an independent reflective traversal of the parsed tree versus the multiset of nodes handed to a visitor that always descends with VisitorContext.Visit",
         "Exploration: directed templates for every construct named in the property plus grammar-generated templates (all statement and expression kinds, 12 delimiter configurations); each accepted template is walked; every statement/expression node must be visited exactly once, structural nodes at most once, no nil node, no panic, bounded visit count.",
         "Trusts the reflective traversal (exported fields only) to enumerate the tree; templates the parser rejects are skipped and counted.",
         "DESIGN.md 3/C20"),
 "C02": ("totality monitor: panic capture, worker-death attribution (child processes with journalled cases), goroutine census and progress watchdog over generated, truncated, mutated and structurally broken sources x 12 delimiter configurations",
         "Exploration: every ordered pair of a 96-token dictionary inside an action (tight and spaced), valid generated templates using every construct, truncations, token/byte mutations, delimiter noise, structural breaks that must be reported, and reference sets (missing/broken/transitively broken/cyclic extends and imports) are parsed through Set.Parse and Set.GetTemplate in child processes. The monitor observes return values, escaped panics, process death (a panic in the lexer goroutine cannot be recovered), goroutines left behind, error positions and elapsed progress.",
         "Hang = no return within 30 s for a source <= 8 KiB; leak = goroutine still present 200 ms after return. Cyclic extends/import is a recorded known finding (stack overflow).",
         "DESIGN.md 3/C02"),
 "C03": ("runtime output monitor: segment-model oracle over generated templates (exhaustive 3-segment windows x 12 delimiter configurations, then random)",
         "Exploration: every ordered triple of 8 segment shapes (text with/without edge whitespace, whitespace-only text, comment, action with each trim-marker combination) is executed under 12 delimiter configurations, followed by random longer templates with nested if/range and import headers; the real output is compared byte for byte with an independent segment model. Held means: no divergence on the executions observed.",
         "Trusts the segment model (a 60-line interpreter) and that the handful of actions used (string literal, :=, if true/false, range ints, import) behave as modelled; cases whose segmentation an independent scanner cannot recover, and header shapes the statement leaves open, are discarded and counted.",
         "DESIGN.md 3/C03"),
}

NOT_YET = "check not built yet in this round (work in progress; see DESIGN.md section 3 for the planned monitor)"

def main():
    props = [json.loads(l) for l in open('/verif/properties.jsonl')]
    checks, na = [], []
    for p in props:
        i = p['id']
        if i in CHECKS:
            tech, text, note, ref = CHECKS[i]
            checks.append({
                "property_id": i,
                "quick_cmd": "./check %s quick" % i,
                "thorough_cmd": "./check %s thorough" % i,
                "evidence_file": "/verif/evidence/%s.json" % i,
                "replay_cmd_template": "./check %s --replay {path}" % i,
                "engine": "vcheck",
                "level_claimed": {"category": "exploration", "text": text, "design_ref": ref},
                "level_note": note,
                "technique": tech,
            })
        else:
            na.append({"property_id": i, "reason": NOT_YET})
    hooks = subprocess.run(["git", "-C", "/repo", "log", "--format=%H", "--grep=^verif:"], capture_output=True, text=True).stdout.split()
    m = {
        "version": 1,
        "setup_cmd": "./setup.sh",
        "hooks": {
            "guard": "verif (Go build tag)",
            "enable": "go build -tags verif (done by ./check; the harness module /verif/h replaces github.com/CloudyKit/jet/v6 with /repo)",
            "baseline_off_cmd": "cd /repo && GOFLAGS=-mod=mod GOPROXY=off GOSUMDB=off go test -json -vet=off -count=1 -timeout 25m ./...",
            "source_commits": hooks,
            "add_only": True,
        },
        "engines": [{"name": "vcheck", "path": "/verif/h", "serves_properties": sorted(CHECKS),
                     "kind_free_text": "Go driver/worker runtime-monitoring harness: generated workloads run against the real /repo tree in child processes; recording wrappers and reference-model oracles decide; race detector and porcupine for C11"}],
        "checks": checks,
        "not_applicable": na,
        "notes": "All checks are runtime monitors over executions of the real code (family: runtime monitoring and sanitizers). Verdicts: exit 0 held on what was observed, exit 1 VIOLATION, exit 2 INCONCLUSIVE. Known findings: /verif/known_findings.txt.",
    }
    if not na:
        del m["not_applicable"]
    json.dump(m, open('/verif/MANIFEST.json', 'w'), indent=1)
    print("checks:", len(checks), "not_applicable:", len(na))

main()
