// Package fw is the driver/worker framework shared by all property checks.
//
// A property is a deterministic list of cases (a pure function of seed and tier).
// The driver partitions the list into batches and runs each batch in a child
// process (the same binary with -worker) so that crashes, fatal errors and hangs
// of the code under test are observed from outside and attributed to the case
// that was journalled last. Workers report events (violations, counters,
// distinct non-trivial case keys, samples) as JSON lines.
package fw

import (
	"bufio"
	"crypto/sha1"
	"encoding/hex"
	"encoding/json"
	"fmt"
	"hash/fnv"
	"math/rand"
	"os"
	"sort"
)

// Property describes one check.
type Property struct {
	ID          string
	Rule        string   // how cases are generated and what makes one non-trivial/distinct
	Assumptions []string // what the check trusts
	Technique   string
	// NCases returns the number of cases for a tier ("quick"|"thorough").
	NCases func(tier string) int
	// RunCase runs case idx. It must derive everything from c.Seed/c.Tier/idx.
	RunCase func(c *Ctx, idx int)
	// Setup is run once per worker process before the first case.
	Setup func(c *Ctx)
	// Finish is run once per worker after the last case (may add violations/counters).
	Finish func(c *Ctx)
	// ClassifyCrash maps a worker death while running the journalled case to a
	// violation signature and optionally a known-finding key.
	ClassifyCrash func(desc json.RawMessage, stderr string) (sig, key string)
	// HangIsViolation: a watchdog expiry is a violation (only C02) instead of inconclusive.
	HangIsViolation bool
	// Race: the worker must run under the race detector build.
	Race bool
	// RaceSide returns a range of cases that is additionally run under the race-detector build when one
	// is available (side monitor; only race reports and worker deaths of that run are used).
	RaceSide func(tier string) (from, to int)
	// MinDistinct: below this many distinct non-trivial cases the run is inconclusive.
	MinDistinct int
	// Batches overrides the number of batches (0 = default by tier).
	Batches func(tier string) int
	// MaxParallel limits concurrently running workers (0 = number of CPUs).
	MaxParallel int
	// WorkerTimeoutS overrides the per-worker wall-clock watchdog in seconds.
	WorkerTimeoutS func(tier string) int
	// Inconclusive returns a reason when the merged counters show that the monitor did not observe
	// what it needs to decide ("" = fine).
	Inconclusive func(counters map[string]int64) string
	// Extra lets a property add keys to the evidence coverage object from merged counters.
	Extra func(counters map[string]int64) map[string]interface{}
}

// Witness is a fixed directed case (the witness of a repaired defect) attached to a property.
type Witness struct {
	Prop string
	Name string
	Run  func() string // "" = fine, else what went wrong
}

var witnessTable []Witness

func RegisterWitnesses(ws []Witness) { witnessTable = append(witnessTable, ws...) }

var registry = map[string]*Property{}

func Register(p *Property) { registry[p.ID] = p }

func Lookup(id string) *Property { return registry[id] }

func IDs() []string {
	var ids []string
	for k := range registry {
		ids = append(ids, k)
	}
	sort.Strings(ids)
	return ids
}

// Event is one JSON line written by a worker.
type Event struct {
	T      string          `json:"t"` // begin|end|viol|summary
	ID     int             `json:"id,omitempty"`
	Desc   json.RawMessage `json:"desc,omitempty"`
	Sig    string          `json:"sig,omitempty"`
	Key    string          `json:"key,omitempty"`
	Detail json.RawMessage `json:"detail,omitempty"`

	Evals    int64             `json:"evals,omitempty"`
	Counters map[string]int64  `json:"counters,omitempty"`
	Distinct []string          `json:"distinct,omitempty"`
	Samples  []json.RawMessage `json:"samples,omitempty"`
}

// Ctx is handed to RunCase.
type Ctx struct {
	Prop    *Property
	Tier    string
	Seed    int64
	Verbose bool

	w          *bufio.Writer
	f          *os.File
	cur        int
	curDesc    json.RawMessage
	evals      int64
	counters   map[string]int64
	distinct   map[string]struct{}
	samples    []json.RawMessage
	maxSamples int
	nviol      int
	sinceFlush int
	State      interface{} // per-worker state owned by the property
}

func NewCtx(p *Property, tier string, seed int64, out *os.File) *Ctx {
	return &Ctx{Prop: p, Tier: tier, Seed: seed, f: out, w: bufio.NewWriter(out),
		counters: map[string]int64{}, distinct: map[string]struct{}{}, maxSamples: 4, cur: -1}
}

func (c *Ctx) emit(e *Event) {
	b, err := json.Marshal(e)
	if err != nil {
		b, _ = json.Marshal(&Event{T: e.T, ID: e.ID, Sig: e.Sig, Key: e.Key, Detail: mustJSON(fmt.Sprintf("unmarshalable: %v", err))})
	}
	c.w.Write(b)
	c.w.WriteByte('\n')
}

func mustJSON(v interface{}) json.RawMessage {
	b, err := json.Marshal(v)
	if err != nil {
		b, _ = json.Marshal(fmt.Sprintf("%+v", v))
	}
	return b
}

// Rand returns a PRNG that depends only on (seed, property, idx, stream).
func (c *Ctx) Rand(idx int, stream string) *rand.Rand {
	h := fnv.New64a()
	fmt.Fprintf(h, "%d|%s|%d|%s", c.Seed, c.Prop.ID, idx, stream)
	return rand.New(rand.NewSource(int64(h.Sum64())))
}

// Begin journals the case before it is run (flushed to disk so that a crash
// can be attributed).
func (c *Ctx) Begin(idx int, desc interface{}) {
	c.cur = idx
	c.curDesc = mustJSON(desc)
	c.emit(&Event{T: "begin", ID: idx, Desc: c.curDesc})
	c.w.Flush()
}

// Journal re-journals the current case with more detail (e.g. the step about to run).
func (c *Ctx) Journal(desc interface{}) {
	c.curDesc = mustJSON(desc)
	c.emit(&Event{T: "begin", ID: c.cur, Desc: c.curDesc})
	c.w.Flush()
}

func (c *Ctx) End() {
	c.emit(&Event{T: "end", ID: c.cur})
	c.evals++
	c.sinceFlush++
	if c.sinceFlush >= 400 {
		// partial summaries: what was observed so far survives a later death of this worker
		c.flushSummary()
	}
}

func (c *Ctx) flushSummary() {
	d := make([]string, 0, len(c.distinct))
	for k := range c.distinct {
		d = append(d, k)
	}
	sort.Strings(d)
	c.emit(&Event{T: "summary", Evals: c.evals, Counters: c.counters, Distinct: d, Samples: c.samples})
	c.w.Flush()
	c.evals, c.sinceFlush = 0, 0
	c.counters = map[string]int64{}
	c.distinct = map[string]struct{}{}
	c.samples = nil
	c.maxSamples = 2
}

// Eval counts additional executions inside a case.
func (c *Ctx) Eval(n int) { c.evals += int64(n) }

func (c *Ctx) Count(key string, n int) { c.counters[key] += int64(n) }

// Distinct records the structural key of a non-trivial case.
func (c *Ctx) Distinct(key string) {
	h := sha1.Sum([]byte(key))
	c.distinct[hex.EncodeToString(h[:6])] = struct{}{}
}

func (c *Ctx) Sample(v interface{}) {
	if len(c.samples) < c.maxSamples {
		c.samples = append(c.samples, mustJSON(v))
	}
}

// Violation reports a violation of the property on the current case.
// key is "" or the key of a narrow known-finding matcher that this violation satisfies.
func (c *Ctx) Violation(sig, key string, detail interface{}) {
	c.nviol++
	if c.nviol > 200 { // cap the report volume; the count is still kept
		c.counters["violations_suppressed"]++
		return
	}
	c.emit(&Event{T: "viol", ID: c.cur, Sig: sig, Key: key, Desc: c.curDesc, Detail: mustJSON(detail)})
	c.w.Flush()
	if c.Verbose {
		fmt.Printf("violation sig=%s key=%s detail=%s\n", sig, key, mustJSON(detail))
	}
}

// AbortWorker ends this worker process after the current case (used when the code under test
// left the process in a state that cannot be continued, e.g. a hung goroutine). The driver
// re-queues the remaining cases of the batch.
func (c *Ctx) AbortWorker() {
	c.emit(&Event{T: "abort", ID: c.cur})
	c.Summary()
	c.f.Close()
	os.Exit(0)
}

func (c *Ctx) Summary() {
	c.flushSummary()
	c.emit(&Event{T: "done"})
	c.w.Flush()
}
