package fw

import (
	"bufio"
	"bytes"
	"crypto/sha1"
	"encoding/hex"
	"encoding/json"
	"flag"
	"fmt"
	"io"
	"os"
	"os/exec"
	"path/filepath"
	"regexp"
	"runtime"
	"runtime/debug"
	"sort"
	"strconv"
	"strings"
	"sync"
	"syscall"
	"time"
)

const verifDir = "/verif"

type violation struct {
	Property string          `json:"property"`
	Tier     string          `json:"tier"`
	Seed     int64           `json:"seed"`
	Case     int             `json:"case"`
	Sig      string          `json:"sig"`
	Key      string          `json:"key,omitempty"`
	Desc     json.RawMessage `json:"desc,omitempty"`
	Detail   json.RawMessage `json:"detail,omitempty"`
	Stderr   string          `json:"stderr,omitempty"`
	Replay   string          `json:"replay_cmd"`
}

// Main is the entry point of the vcheck binary.
func Main() {
	var (
		prop    = flag.String("prop", "", "property id")
		tier    = flag.String("tier", "quick", "quick|thorough")
		seed    = flag.Int64("seed", envSeed(), "seed (default $VERIF_SEED or 1)")
		worker  = flag.Bool("worker", false, "worker mode")
		from    = flag.Int("from", 0, "first case (worker)")
		to      = flag.Int("to", 0, "one past last case (worker)")
		out     = flag.String("out", "", "event file (worker)")
		replay  = flag.String("replay", "", "replay file")
		racebin = flag.String("racebin", "", "race-detector build of this binary")
		verbose = flag.Bool("v", false, "verbose")
		list    = flag.Bool("list", false, "list properties")
	)
	flag.Parse()
	if *list {
		for _, id := range IDs() {
			fmt.Println(id)
		}
		return
	}
	if *replay != "" {
		os.Exit(doReplay(*replay, *verbose))
	}
	p := Lookup(*prop)
	if p == nil {
		fmt.Fprintf(os.Stderr, "unknown property %q (have %v)\n", *prop, IDs())
		os.Exit(3)
	}
	if *tier != "quick" && *tier != "thorough" {
		fmt.Fprintf(os.Stderr, "bad tier %q\n", *tier)
		os.Exit(3)
	}
	if *worker {
		runWorker(p, *tier, *seed, *from, *to, *out, *verbose)
		return
	}
	os.Exit(drive(p, *tier, *seed, *racebin, *verbose))
}

func envSeed() int64 {
	if s := os.Getenv("VERIF_SEED"); s != "" {
		if v, err := strconv.ParseInt(s, 10, 64); err == nil {
			return v
		}
	}
	return 1
}

func runWorker(p *Property, tier string, seed int64, from, to int, out string, verbose bool) {
	debug.SetMaxStack(48 << 20) // runaway recursion dies in seconds, not minutes
	f := os.Stdout
	if out != "" {
		var err error
		f, err = os.OpenFile(out, os.O_CREATE|os.O_WRONLY|os.O_APPEND, 0644)
		if err != nil {
			fmt.Fprintln(os.Stderr, err)
			os.Exit(3)
		}
	}
	c := NewCtx(p, tier, seed, f)
	c.Verbose = verbose
	if p.Setup != nil {
		p.Setup(c)
	}
	if from == 0 {
		// directed witnesses of repaired defects run with the first batch
		for _, w := range witnessTable {
			if w.Prop != p.ID {
				continue
			}
			c.Begin(-1, map[string]interface{}{"witness_of_repaired_defect": w.Name})
			msg := func() (m string) {
				defer func() {
					if r := recover(); r != nil {
						m = fmt.Sprintf("panic: %v", r)
					}
				}()
				return w.Run()
			}()
			if msg != "" {
				if strings.HasPrefix(w.Name, "directed:") {
					c.Violation("witness:"+w.Name, "", "directed case failed: "+msg)
				} else {
					c.Violation("witness:"+w.Name, "", "a defect recorded as fixed is back: "+msg)
				}
			}
			c.Count("witnesses_of_repaired_defects_run", 1)
			c.End()
		}
	}
	for i := from; i < to; i++ {
		p.RunCase(c, i)
	}
	if p.Finish != nil {
		p.Finish(c)
	}
	c.Summary()
	f.Close()
}

type batch struct{ from, to, restarts int }

type merged struct {
	mu       sync.Mutex
	evals    int64
	counters map[string]int64
	distinct map[string]struct{}
	samples  []json.RawMessage
	viols    []violation
	inconcl  []string
	workers  int
	crashes  int
	restarts int // workers restarted after an aborted or fatal case (whole run)
	budget   int // bound on restarts: a tree on which very many cases hang or crash must not keep the check running for hours
	dropped  int // cases not run because the restart budget was used up
}

// mayRestart consumes one unit of the restart budget; when it is used up the rest of the batch is dropped (and the run
// can no longer be "held": it is violated if something was found, inconclusive otherwise).
func (m *merged) mayRestart(from, to int) bool {
	m.mu.Lock()
	defer m.mu.Unlock()
	if m.restarts >= m.budget {
		m.dropped += to - from
		return false
	}
	m.restarts++
	return true
}

func drive(p *Property, tier string, seed int64, racebin string, verbose bool) int {
	start := time.Now()
	n := p.NCases(tier)
	nb := 16
	if tier == "thorough" {
		nb = 64
	}
	if p.Batches != nil {
		nb = p.Batches(tier)
	}
	if nb > n {
		nb = n
	}
	if nb < 1 {
		nb = 1
	}
	tmp, err := os.MkdirTemp("", "vcheck-"+p.ID+"-")
	if err != nil {
		fmt.Println("INCONCLUSIVE cannot create temp dir:", err)
		return 2
	}
	defer os.RemoveAll(tmp)

	self, _ := os.Executable()
	bin := self
	if p.Race {
		if racebin == "" {
			fmt.Println("INCONCLUSIVE property needs the race-detector build (-racebin)")
			return 2
		}
		bin = racebin
	}
	timeout := 600
	if tier == "thorough" {
		timeout = 3 * 3600
	}
	if p.WorkerTimeoutS != nil {
		timeout = p.WorkerTimeoutS(tier)
	}

	m := &merged{counters: map[string]int64{}, distinct: map[string]struct{}{}, budget: 64}
	if tier == "thorough" {
		m.budget = 1500
	}
	queue := make(chan batch, nb*64+16)
	var pending sync.WaitGroup
	for b := 0; b < nb; b++ {
		f, t := b*n/nb, (b+1)*n/nb
		if t > f {
			pending.Add(1)
			queue <- batch{from: f, to: t}
		}
	}
	par := runtime.NumCPU()
	if p.MaxParallel > 0 && p.MaxParallel < par {
		par = p.MaxParallel
	}
	var seq int
	var seqMu sync.Mutex
	for w := 0; w < par; w++ {
		go func() {
			for b := range queue {
				seqMu.Lock()
				seq++
				id := seq
				seqMu.Unlock()
				next := runBatch(p, tier, seed, bin, tmp, id, b, timeout, m, verbose)
				if next != nil {
					pending.Add(1)
					queue <- *next
				}
				pending.Done()
			}
		}()
	}
	pending.Wait()
	close(queue)

	if p.RaceSide != nil && racebin != "" && !p.Race {
		// side monitor: a slice of the cases once more under the race detector (counters are not merged twice)
		if f, t := p.RaceSide(tier); t > f {
			side := &merged{counters: map[string]int64{}, distinct: map[string]struct{}{}}
			var wg sync.WaitGroup
			nside := 8
			for k := 0; k < nside; k++ {
				bf, bt := f+k*(t-f)/nside, f+(k+1)*(t-f)/nside
				if bt <= bf {
					continue
				}
				wg.Add(1)
				go func(k, bf, bt int) {
					defer wg.Done()
					runBatchRace(p, tier, seed, racebin, tmp, 100000+k, batch{from: bf, to: bt, restarts: 1000}, timeout, side, verbose, true)
				}(k, bf, bt)
			}
			wg.Wait()
			m.counters["race_side_run_cases"] = int64(t - f)
			m.counters["race_side_run_evaluations"] = side.evals
			before := len(m.viols)
			collectRaceReports(p, tier, seed, tmp, m)
			m.counters["race_side_run_reports"] = int64(len(m.viols) - before)
		}
	}
	if p.Race {
		collectRaceReports(p, tier, seed, tmp, m)
	}
	return report(p, tier, seed, m, time.Since(start).Seconds())
}

// runBatch runs one worker over [b.from,b.to). If the worker dies, the death is
// attributed to the journalled case and the rest of the batch is returned for re-queueing.
func runBatch(p *Property, tier string, seed int64, bin, tmp string, id int, b batch, timeoutS int, m *merged, verbose bool) *batch {
	return runBatchRace(p, tier, seed, bin, tmp, id, b, timeoutS, m, verbose, p.Race)
}

func runBatchRace(p *Property, tier string, seed int64, bin, tmp string, id int, b batch, timeoutS int, m *merged, verbose bool, race bool) *batch {
	evf := filepath.Join(tmp, fmt.Sprintf("ev-%d.jsonl", id))
	errf := filepath.Join(tmp, fmt.Sprintf("err-%d.txt", id))
	ef, _ := os.Create(errf)
	args := []string{"-worker", "-prop", p.ID, "-tier", tier, "-seed", strconv.FormatInt(seed, 10),
		"-from", strconv.Itoa(b.from), "-to", strconv.Itoa(b.to), "-out", evf}
	cmd := exec.Command(bin, args...)
	cmd.Stdout = ef
	cmd.Stderr = ef
	cmd.Env = append(os.Environ(), "GOTRACEBACK=all", "VCHECK_TMP="+tmp)
	if race {
		cmd.Env = append(cmd.Env, "GORACE=halt_on_error=0 log_path="+filepath.Join(tmp, "race"))
	}
	cmd.SysProcAttr = &syscall.SysProcAttr{Setpgid: true}
	hung := false
	if err := cmd.Start(); err != nil {
		m.mu.Lock()
		m.inconcl = append(m.inconcl, "cannot start worker: "+err.Error())
		m.mu.Unlock()
		return nil
	}
	done := make(chan error, 1)
	go func() { done <- cmd.Wait() }()
	var werr error
	select {
	case werr = <-done:
	case <-time.After(time.Duration(timeoutS) * time.Second):
		hung = true
		cmd.Process.Signal(syscall.SIGQUIT)
		select {
		case werr = <-done:
		case <-time.After(20 * time.Second):
			syscall.Kill(-cmd.Process.Pid, syscall.SIGKILL)
			werr = <-done
		}
	}
	ef.Close()

	// parse the event file
	var lastBegin *Event
	open := false
	summary := false
	aborted := -1
	f, err := os.Open(evf)
	if err == nil {
		sc := bufio.NewScanner(f)
		sc.Buffer(make([]byte, 1<<20), 256<<20)
		m.mu.Lock()
		for sc.Scan() {
			var e Event
			if json.Unmarshal(sc.Bytes(), &e) != nil {
				continue
			}
			switch e.T {
			case "begin":
				ec := e
				lastBegin = &ec
				open = true
			case "end":
				open = false
			case "abort":
				aborted = e.ID
				open = false
			case "viol":
				m.viols = append(m.viols, violation{Property: p.ID, Tier: tier, Seed: seed, Case: e.ID, Sig: e.Sig, Key: e.Key, Desc: e.Desc, Detail: e.Detail})
			case "done":
				summary = true
			case "summary":
				m.evals += e.Evals
				for k, v := range e.Counters {
					m.counters[k] += v
				}
				for _, d := range e.Distinct {
					m.distinct[d] = struct{}{}
				}
				for _, s := range e.Samples {
					if len(m.samples) < 5 {
						m.samples = append(m.samples, s)
					}
				}
			}
		}
		m.workers++
		m.mu.Unlock()
		f.Close()
	}
	os.Remove(evf)
	if summary && werr == nil {
		os.Remove(errf)
		if aborted >= 0 && aborted+1 < b.to && b.restarts < 200 && m.mayRestart(aborted+1, b.to) {
			return &batch{from: aborted + 1, to: b.to, restarts: b.restarts + 1}
		}
		return nil
	}
	// the worker died or hung
	stderr := headTail(errf, 48<<10, 8<<10)
	os.Remove(errf)
	m.mu.Lock()
	defer m.mu.Unlock()
	m.crashes++
	if hung && !p.HangIsViolation {
		m.inconcl = append(m.inconcl, fmt.Sprintf("worker for cases [%d,%d) exceeded the %ds watchdog", b.from, b.to, timeoutS))
		return nil
	}
	if lastBegin == nil || !open {
		m.inconcl = append(m.inconcl, fmt.Sprintf("worker for cases [%d,%d) died outside any case: %v: %s", b.from, b.to, werr, firstLines(stderr, 5)))
		return nil
	}
	sig, key := "crash:"+crashLine(stderr), ""
	if hung {
		sig = "hang"
	}
	if p.ClassifyCrash != nil {
		if s, k := p.ClassifyCrash(lastBegin.Desc, stderr); s != "" {
			sig, key = s, k
		}
	}
	m.viols = append(m.viols, violation{Property: p.ID, Tier: tier, Seed: seed, Case: lastBegin.ID, Sig: sig, Key: key, Desc: lastBegin.Desc,
		Detail: mustJSON(fmt.Sprintf("worker died (%v) while running this case", werr)), Stderr: firstLines(stderr, 40)})
	if lastBegin.ID+1 < b.to && b.restarts < 200 {
		m.mu.Unlock()
		ok := m.mayRestart(lastBegin.ID+1, b.to)
		m.mu.Lock()
		if ok {
			return &batch{from: lastBegin.ID + 1, to: b.to, restarts: b.restarts + 1}
		}
	}
	return nil
}

func headTail(path string, head, tail int) string {
	f, err := os.Open(path)
	if err != nil {
		return ""
	}
	defer f.Close()
	st, _ := f.Stat()
	hb := make([]byte, head)
	n, _ := io.ReadFull(f, hb)
	s := string(hb[:n])
	if st != nil && st.Size() > int64(head+tail) {
		tb := make([]byte, tail)
		f.Seek(-int64(tail), io.SeekEnd)
		k, _ := io.ReadFull(f, tb)
		s += "\n...\n" + string(tb[:k])
	}
	return s
}

func firstLines(s string, n int) string {
	l := strings.SplitN(s, "\n", n+1)
	if len(l) > n {
		l = l[:n]
	}
	return strings.Join(l, "\n")
}

var addrRe = regexp.MustCompile(`0x[0-9a-f]+|\[[0-9:]+\]|\d+`)

func crashLine(stderr string) string {
	for _, l := range strings.Split(stderr, "\n") {
		if strings.HasPrefix(l, "panic:") || strings.HasPrefix(l, "fatal error:") || strings.Contains(l, "stack overflow") {
			return addrRe.ReplaceAllString(l, "N")
		}
	}
	return "unknown"
}

func collectRaceReports(p *Property, tier string, seed int64, tmp string, m *merged) {
	files, _ := filepath.Glob(filepath.Join(tmp, "race.*"))
	seen := map[string]bool{}
	for _, f := range files {
		b, err := os.ReadFile(f)
		if err != nil {
			continue
		}
		for _, blk := range strings.Split(string(b), "==================") {
			if !strings.Contains(blk, "WARNING: DATA RACE") {
				continue
			}
			m.counters["race_reports"]++
			sig := "race:" + raceSig(blk)
			if seen[sig] {
				continue
			}
			seen[sig] = true
			if len(blk) > 6000 {
				blk = blk[:6000]
			}
			m.viols = append(m.viols, violation{Property: p.ID, Tier: tier, Seed: seed, Case: -1, Sig: sig, Detail: mustJSON("data race reported by the Go race detector"), Stderr: blk})
		}
	}
}

// raceSig de-duplicates race reports by the two innermost jet frames with line numbers stripped.
func raceSig(blk string) string {
	var fr []string
	for _, l := range strings.Split(blk, "\n") {
		l = strings.TrimSpace(l)
		if strings.HasPrefix(l, "github.com/CloudyKit/jet") {
			l = strings.TrimSuffix(l, "()")
			l = strings.TrimPrefix(l, "github.com/CloudyKit/jet/v6")
			fr = append(fr, l)
		}
		if strings.HasPrefix(l, "Previous") || strings.HasPrefix(l, "Goroutine") {
			fr = append(fr, "|")
		}
	}
	// keep first frame of each section
	var out []string
	take := true
	for _, f := range fr {
		if f == "|" {
			take = true
			continue
		}
		if take {
			out = append(out, f)
			take = false
		}
	}
	if len(out) > 2 {
		out = out[:2]
	}
	sort.Strings(out)
	return strings.Join(out, "~")
}

type knownLine struct{ prop, key, text string }

func loadKnown() []knownLine {
	var res []knownLine
	b, err := os.ReadFile(filepath.Join(verifDir, "known_findings.txt"))
	if err != nil {
		return nil
	}
	for _, l := range strings.Split(string(b), "\n") {
		if i := strings.Index(l, "#"); i >= 0 {
			l = l[:i]
		}
		l = strings.TrimSpace(l)
		if !strings.HasPrefix(l, "known:") {
			continue
		}
		fs := strings.Fields(strings.TrimPrefix(l, "known:"))
		var k knownLine
		var rest []string
		for _, f := range fs {
			switch {
			case strings.HasPrefix(f, "property=") && k.prop == "":
				k.prop = strings.TrimPrefix(f, "property=")
			case strings.HasPrefix(f, "key=") && k.key == "":
				k.key = strings.TrimPrefix(f, "key=")
			default:
				rest = append(rest, f)
			}
		}
		k.text = strings.Join(rest, " ")
		if k.prop != "" && k.key != "" {
			res = append(res, k)
		}
	}
	return res
}

func report(p *Property, tier string, seed int64, m *merged, wall float64) int {
	if m.dropped > 0 {
		m.counters["cases_dropped_after_restart_budget"] = int64(m.dropped)
		m.inconcl = append(m.inconcl, fmt.Sprintf("%d workers had to be restarted after hanging or fatal cases; the restart budget was used up and %d cases were not run", m.restarts, m.dropped))
	}
	m.counters["worker_restarts"] = int64(m.restarts)
	known := loadKnown()
	isKnown := func(key string) *knownLine {
		if key == "" {
			return nil
		}
		for i := range known {
			if known[i].prop == p.ID && known[i].key == key {
				return &known[i]
			}
		}
		return nil
	}
	// group violations by signature
	sort.SliceStable(m.viols, func(i, j int) bool { return m.viols[i].Case < m.viols[j].Case })
	bySig := map[string]*violation{}
	var sigs []string
	knownPrinted := map[string]bool{}
	nViol, nKnown := 0, 0
	for i := range m.viols {
		v := &m.viols[i]
		if k := isKnown(v.Key); k != nil {
			nKnown++
			if !knownPrinted[v.Key] {
				knownPrinted[v.Key] = true
				fmt.Printf("KNOWN-FINDING: property=%s %s\n", p.ID, k.text)
			}
			continue
		}
		nViol++
		if _, ok := bySig[v.Sig]; !ok {
			bySig[v.Sig] = v
			sigs = append(sigs, v.Sig)
		}
	}
	replayDir := filepath.Join(verifDir, "replay", p.ID)
	if old, _ := filepath.Glob(filepath.Join(replayDir, tier+"-*.json")); len(old) > 0 {
		for _, f := range old { // replay files of earlier runs of this tier would only confuse
			os.Remove(f)
		}
	}
	for i, s := range sigs {
		v := bySig[s]
		h := sha1.Sum([]byte(s))
		os.MkdirAll(replayDir, 0755)
		path := filepath.Join(replayDir, fmt.Sprintf("%s-%s.json", tier, hex.EncodeToString(h[:5])))
		v.Replay = fmt.Sprintf("./check %s --replay %s", p.ID, path)
		b, _ := json.MarshalIndent(v, "", " ")
		os.WriteFile(path, b, 0644)
		if i < 25 {
			fmt.Printf("VIOLATION property=%s replay=%s\n", p.ID, path)
			fmt.Printf("  signature: %s\n", s)
		}
	}
	if len(sigs) > 25 {
		fmt.Printf("  ... and %d more distinct violation signatures (replay files written)\n", len(sigs)-25)
	}

	cov := map[string]interface{}{
		"evaluations":                   m.evals,
		"distinct_nontrivial":           len(m.distinct),
		"rule":                          p.Rule,
		"samples":                       m.samples,
		"counters":                      m.counters,
		"workers":                       m.workers,
		"worker_deaths":                 m.crashes,
		"known_finding_hits":            nKnown,
		"distinct_violation_signatures": len(sigs),
		"hooks_available":               HooksAvailable,
	}
	if p.Extra != nil {
		for k, v := range p.Extra(m.counters) {
			cov[k] = v
		}
	}
	if len(m.samples) == 0 {
		cov["samples"] = []string{"(no sample recorded)"}
	}
	ev := map[string]interface{}{
		"property_id": p.ID,
		"tier":        tier,
		"seed":        seed,
		"level":       "exploration",
		"coverage":    cov,
		"assumptions": p.Assumptions,
		"wall_s":      wall,
		"violations":  nViol,
	}
	if p.Inconclusive != nil && len(m.inconcl) == 0 {
		if why := p.Inconclusive(m.counters); why != "" {
			m.inconcl = append(m.inconcl, why)
		}
	}
	status := "held"
	code := 0
	if nViol > 0 {
		status, code = "violated", 1
	} else if len(m.inconcl) > 0 {
		status, code = "inconclusive", 2
	} else if len(m.distinct) < p.MinDistinct || m.evals == 0 {
		status, code = "inconclusive", 2
		m.inconcl = append(m.inconcl, fmt.Sprintf("only %d distinct non-trivial cases observed (floor %d)", len(m.distinct), p.MinDistinct))
	}
	ev["verdict"] = status
	if len(m.inconcl) > 0 {
		ev["inconclusive_reasons"] = m.inconcl
	}
	os.MkdirAll(filepath.Join(verifDir, "evidence"), 0755)
	var buf bytes.Buffer
	enc := json.NewEncoder(&buf)
	enc.SetIndent("", " ")
	enc.SetEscapeHTML(false)
	enc.Encode(ev)
	os.WriteFile(filepath.Join(verifDir, "evidence", p.ID+".json"), buf.Bytes(), 0644)

	for _, r := range m.inconcl {
		fmt.Printf("INCONCLUSIVE property=%s %s\n", p.ID, r)
	}
	fmt.Printf("%s %s tier=%s seed=%d: %s; %d evaluations, %d distinct non-trivial cases, %d violations (%d known-finding hits), %.1fs\n",
		p.ID, time.Now().UTC().Format("15:04:05"), tier, seed, status, m.evals, len(m.distinct), nViol, nKnown, wall)
	return code
}

// HooksAvailable is set by the hook package when built with -tags verif.
var HooksAvailable bool

func doReplay(path string, verbose bool) int {
	b, err := os.ReadFile(path)
	if err != nil {
		fmt.Fprintln(os.Stderr, err)
		return 3
	}
	var v violation
	if err := json.Unmarshal(b, &v); err != nil {
		fmt.Fprintln(os.Stderr, err)
		return 3
	}
	p := Lookup(v.Property)
	if p == nil {
		fmt.Fprintln(os.Stderr, "unknown property", v.Property)
		return 3
	}
	fmt.Printf("replaying %s case %d (tier=%s seed=%d) signature %q\n", v.Property, v.Case, v.Tier, v.Seed, v.Sig)
	if len(v.Desc) > 0 {
		fmt.Printf("case: %s\n", v.Desc)
	}
	if v.Case < 0 {
		fmt.Println("this violation is not attributable to a single case (e.g. a race report); re-run the check")
		fmt.Println(v.Stderr)
		return 1
	}
	tmp, _ := os.CreateTemp("", "vreplay-*.jsonl")
	tmp.Close()
	defer os.Remove(tmp.Name())
	self, _ := os.Executable()
	cmd := exec.Command(self, "-worker", "-v", "-prop", v.Property, "-tier", v.Tier, "-seed", strconv.FormatInt(v.Seed, 10),
		"-from", strconv.Itoa(v.Case), "-to", strconv.Itoa(v.Case+1), "-out", tmp.Name())
	cmd.Stdout = os.Stdout
	cmd.Stderr = os.Stderr
	werr := cmd.Run()
	ev, _ := os.ReadFile(tmp.Name())
	n := 0
	for _, l := range bytes.Split(ev, []byte("\n")) {
		var e Event
		if json.Unmarshal(l, &e) == nil && e.T == "viol" {
			n++
			fmt.Printf("reproduced: sig=%s\n detail=%s\n", e.Sig, e.Detail)
		}
	}
	if werr != nil {
		fmt.Printf("reproduced: worker died: %v\n", werr)
		return 1
	}
	if n == 0 {
		fmt.Println("not reproduced on the current tree")
		return 0
	}
	return 1
}
