// Package rec provides recording (and fault-injecting) wrappers for the seams of a jet.Set:
// Loader, Cache and the output writer.
package rec

import (
	"errors"
	"io"
	"sync"

	"github.com/CloudyKit/jet/v6"
)

// Call is one recorded call at a seam.
type Call struct {
	Op   string `json:"op"` // Exists|Open|Get|Put
	Path string `json:"path"`
	OK   bool   `json:"ok"` // Exists result / Open succeeded / Get hit
}

type Log struct {
	mu    sync.Mutex
	Calls []Call
}

func (l *Log) add(c Call) {
	l.mu.Lock()
	l.Calls = append(l.Calls, c)
	l.mu.Unlock()
}

func (l *Log) Reset() {
	l.mu.Lock()
	l.Calls = nil
	l.mu.Unlock()
}

func (l *Log) Snapshot() []Call {
	l.mu.Lock()
	defer l.mu.Unlock()
	return append([]Call(nil), l.Calls...)
}

// Loader records calls and can inject faults.
type Loader struct {
	Inner jet.Loader
	Log   *Log
	// OpenErr: paths for which Open fails although Exists is true.
	OpenErr map[string]bool
	// ReadErrAfter: paths whose reader fails after n bytes.
	ReadErrAfter map[string]int
	// ReadErrWithData: paths whose reader delivers its first n bytes together with the error, once, and io.EOF afterwards
	// (as bufio.Reader reports a failing source).
	ReadErrWithData map[string]int
	// Hook is called at the start of every call (to yield/sleep and widen interleaving windows).
	Hook func(op, path string)
}

func NewLoader(inner jet.Loader) *Loader {
	return &Loader{Inner: inner, Log: &Log{}, OpenErr: map[string]bool{}, ReadErrAfter: map[string]int{}, ReadErrWithData: map[string]int{}}
}

func (l *Loader) Exists(p string) bool {
	if l.Hook != nil {
		l.Hook("Exists", p)
	}
	ok := l.Inner.Exists(p)
	l.Log.add(Call{Op: "Exists", Path: p, OK: ok})
	return ok
}

var ErrInjected = errors.New("injected loader fault")

type failingReader struct {
	r io.ReadCloser
	n int
}

func (f *failingReader) Read(b []byte) (int, error) {
	if f.n <= 0 {
		return 0, ErrInjected
	}
	if len(b) > f.n {
		b = b[:f.n]
	}
	k, err := f.r.Read(b)
	f.n -= k
	return k, err
}

func (f *failingReader) Close() error { return f.r.Close() }

type onceFailingReader struct {
	r    io.ReadCloser
	n    int
	done bool
}

func (f *onceFailingReader) Read(b []byte) (int, error) {
	if f.done {
		return 0, io.EOF
	}
	f.done = true
	if len(b) > f.n {
		b = b[:f.n]
	}
	k, _ := io.ReadFull(f.r, b)
	return k, ErrInjected
}

func (f *onceFailingReader) Close() error { return f.r.Close() }

func (l *Loader) Open(p string) (io.ReadCloser, error) {
	if l.Hook != nil {
		l.Hook("Open", p)
	}
	if l.OpenErr[p] {
		l.Log.add(Call{Op: "Open", Path: p, OK: false})
		return nil, ErrInjected
	}
	rc, err := l.Inner.Open(p)
	l.Log.add(Call{Op: "Open", Path: p, OK: err == nil})
	if err != nil {
		return nil, err
	}
	if n, ok := l.ReadErrWithData[p]; ok {
		return &onceFailingReader{r: rc, n: n}, nil
	}
	if n, ok := l.ReadErrAfter[p]; ok {
		return &failingReader{r: rc, n: n}, nil
	}
	return rc, nil
}

// Cache is a recording jet.Cache.
type Cache struct {
	mu   sync.Mutex
	m    map[string]*jet.Template
	Log  *Log
	Hook func(op, path string)
}

func NewCache() *Cache { return &Cache{m: map[string]*jet.Template{}, Log: &Log{}} }

func (c *Cache) Get(p string) *jet.Template {
	if c.Hook != nil {
		c.Hook("Get", p)
	}
	c.mu.Lock()
	t := c.m[p]
	c.mu.Unlock()
	c.Log.add(Call{Op: "Get", Path: p, OK: t != nil})
	return t
}

func (c *Cache) Put(p string, t *jet.Template) {
	if c.Hook != nil {
		c.Hook("Put", p)
	}
	c.mu.Lock()
	c.m[p] = t
	c.mu.Unlock()
	c.Log.add(Call{Op: "Put", Path: p, OK: true})
}

func (c *Cache) Len() int {
	c.mu.Lock()
	defer c.mu.Unlock()
	return len(c.m)
}

// Writer records every Write call and can fail after a number of bytes.
type Writer struct {
	Chunks    [][]byte
	FailAfter int // <0: never
	written   int
}

func NewWriter() *Writer { return &Writer{FailAfter: -1} }

func (w *Writer) Write(b []byte) (int, error) {
	if w.FailAfter >= 0 && w.written+len(b) > w.FailAfter {
		n := w.FailAfter - w.written
		if n < 0 {
			n = 0
		}
		w.Chunks = append(w.Chunks, append([]byte(nil), b[:n]...))
		w.written += n
		return n, ErrInjected
	}
	w.Chunks = append(w.Chunks, append([]byte(nil), b...))
	w.written += len(b)
	return len(b), nil
}

func (w *Writer) String() string {
	var n int
	for _, c := range w.Chunks {
		n += len(c)
	}
	out := make([]byte, 0, n)
	for _, c := range w.Chunks {
		out = append(out, c...)
	}
	return string(out)
}
