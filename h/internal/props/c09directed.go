package props

import (
	"fmt"

	"github.com/CloudyKit/jet/v6"
	"verifh/internal/fw"
	"verifh/internal/jx"
)

// Directed C09 cases: the includer's blocks are visible in included / exec'd templates at any nesting depth, whatever
// VarMap (nil, empty, filled) Execute was given.
var c09blockCases = []struct {
	name  string
	files map[string]string
	want  string
}{
	{"include-yields-includers-block", map[string]string{
		"/main.jet": `{{block badge()}}B{{end}}|{{include "/w.jet"}}`,
		"/w.jet":    `w<{{yield badge()}}>`}, "B|w<B>"},
	{"includeIfExists-yields-includers-block", map[string]string{
		"/main.jet": `{{block badge()}}B{{end}}|{{if includeIfExists("/w.jet")}}Y{{end}}`,
		"/w.jet":    `w<{{yield badge()}}>`}, "B|w<B>Y"},
	{"exec-yields-includers-block", map[string]string{
		"/main.jet": `{{block badge()}}B{{end}}|{{ exec("/r.jet") }}`,
		"/r.jet":    `x{{yield badge()}}{{return "r"}}`}, "B|r"},
	{"nested-includes", map[string]string{
		"/main.jet": `{{block badge()}}B{{end}}|{{include "/mid.jet"}}`,
		"/mid.jet":  `m({{include "/w.jet"}})`,
		"/w.jet":    `w<{{yield badge()}}>`}, "B|m(w<B>)"},
	{"include-inside-range-and-if", map[string]string{
		"/main.jet": `{{block badge()}}B{{end}}|{{range ints(0, 2)}}{{if true}}{{include "/w.jet"}}{{end}}{{end}}`,
		"/w.jet":    `w<{{yield badge()}}>`}, "B|w<B>w<B>"},
	{"extending-template-overrides-block-used-by-include-of-the-layout", map[string]string{
		"/main.jet":   `{{extends "/layout.jet"}}{{block badge()}}OVERRIDE{{end}}`,
		"/layout.jet": `L[{{block badge()}}default{{end}}|{{include "/w.jet"}}]`,
		"/w.jet":      `w<{{yield badge()}}>`}, "L[OVERRIDE|w<OVERRIDE>]"},
	{"imported-block-visible-in-include", map[string]string{
		"/main.jet": `{{import "/lib.jet"}}{{include "/w.jet"}}`,
		"/lib.jet":  `{{block badge()}}LIB{{end}}`,
		"/w.jet":    `w<{{yield badge()}}>`}, "w<LIB>"},
	{"include-with-context", map[string]string{
		"/main.jet": `{{block badge()}}B:{{.}}{{end}}|{{include "/w.jet" "c2"}}`,
		"/w.jet":    `w<{{yield badge()}}>`}, "B:ctx|w<B:c2>"},
}

// Directed cases with an expected error or output under ordinary variables.
var c09moreCases = []struct {
	name    string
	files   map[string]string
	data    interface{}
	want    string
	wantErr bool
}{
	// includeIfExists behaves like include when the template EXISTS - also when it exists and cannot be used
	{"includeIfExists-of-unparsable-template-fails-like-include", map[string]string{
		"/main.jet": `before|{{if includeIfExists("/broken.jet")}}Y{{else}}fallback{{end}}|after`, "/broken.jet": `x{{ if }}y`}, nil, "before|", true},
	{"includeIfExists-of-template-extending-a-missing-one", map[string]string{
		"/main.jet": `before|{{if includeIfExists("/child.jet")}}Y{{else}}fallback{{end}}|after`, "/child.jet": `{{extends "/nowhere.jet"}}c`}, nil, "before|", true},
	{"includeIfExists-of-template-importing-a-missing-one", map[string]string{
		"/main.jet": `before|{{if includeIfExists("/child.jet")}}Y{{else}}fallback{{end}}|after`, "/child.jet": `{{import "/nowhere.jet"}}c`}, nil, "before|", true},
	{"include-of-unparsable-template-fails", map[string]string{
		"/main.jet": `before|{{include "/broken.jet"}}|after`, "/broken.jet": `x{{ if }}y`}, nil, "before|", true},
	{"includeIfExists-missing-is-false", map[string]string{
		"/main.jet": `before|{{if includeIfExists("/nowhere.jet")}}Y{{else}}fallback{{end}}|after`}, nil, "before|fallback|after", false},
	// the name of an include is computed in the includer's context, whatever context is handed to the target
	{"computed-name-reads-dot-explicit-context", map[string]string{
		"/main.jet": `{{include .tpl .item}}|{{range .items}}{{include "/" + .kind + ".jet" .label}}{{end}}`,
		"/card.jet": `[card {{.}}]`, "/row.jet": `[row {{.}}]`},
		map[string]interface{}{"tpl": "/card.jet", "item": "one", "items": []map[string]string{{"kind": "card", "label": "a"}, {"kind": "row", "label": "b"}}}, "[card one]|[card a][row b]", false},
	// an include name is any string-kinded value (a named string type too)
	{"include-name-of-named-string-type", map[string]string{
		"/main.jet": `{{range .kinds}}<{{include .}}>{{end}}|{{include .first "c"}}`, "/card.jet": `[card {{.}}]`, "/row.jet": `[row {{.}}]`},
		map[string]interface{}{"kinds": []c09kind{"/card.jet", "/row.jet"}, "first": c09kind("/row.jet")}, "<[card /card.jet]><[row /row.jet]>|[row c]", false},
	// exec evaluates to the value of the return that ran - also when that value is a typed nil and the return sits in a range
	{"exec-returns-typed-nil-from-inside-range", map[string]string{
		"/main.jet":  `{{t := exec("/find.jet", .)}}{{len(t)}}|{{range t}}#{{.}}{{else}}untagged{{end}}|{{a := exec("/finda.jet", .)}}{{len(a)}}:{{isset(a.color)}}`,
		"/find.jet":  `x{{w := .wanted}}{{range .users}}{{if .Name == w}}{{return .Tags}}{{end}}{{.Name}}{{end}}y`,
		"/finda.jet": `{{w := .wanted}}{{range _, u := .users}}{{if u.Name == w}}{{return u.Attrs}}{{end}}{{end}}`},
		map[string]interface{}{"wanted": "bob", "users": c09users}, "0|untagged|0:false", false},
	{"exec-returns-value-from-inside-range", map[string]string{
		"/main.jet": `{{t := exec("/find.jet", .)}}{{len(t)}}|{{range t}}#{{.}}{{else}}untagged{{end}}`,
		"/find.jet": `x{{w := .wanted}}{{range .users}}{{if .Name == w}}{{return .Tags}}{{end}}{{.Name}}{{end}}y`},
		map[string]interface{}{"wanted": "alice", "users": c09users}, "2|#admin#ops", false},
	{"computed-name-reads-dot-string-context", map[string]string{
		"/main.jet": `{{include .tpl "literal-ctx"}}`, "/card.jet": `[card {{.}}]`},
		map[string]interface{}{"tpl": "/card.jet"}, "[card literal-ctx]", false},
}

type c09kind string

type c09user struct {
	Name  string
	Tags  []string
	Attrs map[string]string
}

var c09users = []c09user{{Name: "alice", Tags: []string{"admin", "ops"}, Attrs: map[string]string{"color": "red"}}, {Name: "bob"}, {Name: "carol", Tags: []string{"dev"}}}

var c09varForms = []string{"nil VarMap", "empty VarMap", "VarMap with an unrelated variable"}

var c09nBlockCases = len(c09blockCases)*len(c09varForms) + len(c09moreCases)

func c09blockCase(c *fw.Ctx, idx int) {
	if k := idx - len(c09blockCases)*len(c09varForms); k >= 0 {
		d := c09moreCases[k]
		c.Begin(idx, map[string]interface{}{"directed": d.name, "files": d.files})
		defer c.End()
		res := jx.Run(d.files, "/main.jet", jet.VarMap{}, d.data, jx.NoEscape)
		c.Eval(1)
		c.Count("directed_include_cases", 1)
		if res.Panic != nil || res.ParseErr != nil || d.wantErr != (res.Err != nil) || res.Out != d.want {
			c.Violation("c09:directed:"+d.name, "", fmt.Sprintf("rendered %s, want output %q and error=%v", res, d.want, d.wantErr))
			return
		}
		c.Distinct("directed|" + d.name)
		return
	}
	d := c09blockCases[idx/len(c09varForms)]
	form := idx % len(c09varForms)
	c.Begin(idx, map[string]interface{}{"directed": "includer's blocks visible", "name": d.name, "files": d.files, "variables": c09varForms[form]})
	defer c.End()
	var vars jet.VarMap
	switch form {
	case 1:
		vars = jet.VarMap{}
	case 2:
		vars = jet.VarMap{}
		vars.Set("unrelated", 1)
	}
	res := jx.Run(d.files, "/main.jet", vars, "ctx", jx.NoEscape)
	c.Eval(1)
	c.Count("directed_block_visibility_cases", 1)
	if res.Failed() || res.Out != d.want {
		c.Violation("c09:includers-blocks:"+d.name, "", fmt.Sprintf("with a %s: rendered %s, want %q", c09varForms[form], res, d.want))
		return
	}
	c.Distinct("includers-blocks|" + d.name + "|" + c09varForms[form])
}
