package props

import (
	"fmt"

	"github.com/CloudyKit/jet/v6"
	"verifh/internal/fw"
	"verifh/internal/jx"
)

// Directed C09 cases: the includer's blocks are visible in included / exec'd templates at any nesting depth, whatever
// VarMap (nil, empty, filled) Execute was given.
var c09blockCases = []struct {
	name  string
	files map[string]string
	want  string
}{
	{"include-yields-includers-block", map[string]string{
		"/main.jet": `{{block badge()}}B{{end}}|{{include "/w.jet"}}`,
		"/w.jet":    `w<{{yield badge()}}>`}, "B|w<B>"},
	{"includeIfExists-yields-includers-block", map[string]string{
		"/main.jet": `{{block badge()}}B{{end}}|{{if includeIfExists("/w.jet")}}Y{{end}}`,
		"/w.jet":    `w<{{yield badge()}}>`}, "B|w<B>Y"},
	{"exec-yields-includers-block", map[string]string{
		"/main.jet": `{{block badge()}}B{{end}}|{{ exec("/r.jet") }}`,
		"/r.jet":    `x{{yield badge()}}{{return "r"}}`}, "B|r"},
	{"nested-includes", map[string]string{
		"/main.jet": `{{block badge()}}B{{end}}|{{include "/mid.jet"}}`,
		"/mid.jet":  `m({{include "/w.jet"}})`,
		"/w.jet":    `w<{{yield badge()}}>`}, "B|m(w<B>)"},
	{"include-inside-range-and-if", map[string]string{
		"/main.jet": `{{block badge()}}B{{end}}|{{range ints(0, 2)}}{{if true}}{{include "/w.jet"}}{{end}}{{end}}`,
		"/w.jet":    `w<{{yield badge()}}>`}, "B|w<B>w<B>"},
	{"extending-template-overrides-block-used-by-include-of-the-layout", map[string]string{
		"/main.jet":   `{{extends "/layout.jet"}}{{block badge()}}OVERRIDE{{end}}`,
		"/layout.jet": `L[{{block badge()}}default{{end}}|{{include "/w.jet"}}]`,
		"/w.jet":      `w<{{yield badge()}}>`}, "L[OVERRIDE|w<OVERRIDE>]"},
	{"imported-block-visible-in-include", map[string]string{
		"/main.jet": `{{import "/lib.jet"}}{{include "/w.jet"}}`,
		"/lib.jet":  `{{block badge()}}LIB{{end}}`,
		"/w.jet":    `w<{{yield badge()}}>`}, "w<LIB>"},
	{"include-with-context", map[string]string{
		"/main.jet": `{{block badge()}}B:{{.}}{{end}}|{{include "/w.jet" "c2"}}`,
		"/w.jet":    `w<{{yield badge()}}>`}, "B:ctx|w<B:c2>"},
}

var c09varForms = []string{"nil VarMap", "empty VarMap", "VarMap with an unrelated variable"}

var c09nBlockCases = len(c09blockCases) * len(c09varForms)

func c09blockCase(c *fw.Ctx, idx int) {
	d := c09blockCases[idx/len(c09varForms)]
	form := idx % len(c09varForms)
	c.Begin(idx, map[string]interface{}{"directed": "includer's blocks visible", "name": d.name, "files": d.files, "variables": c09varForms[form]})
	defer c.End()
	var vars jet.VarMap
	switch form {
	case 1:
		vars = jet.VarMap{}
	case 2:
		vars = jet.VarMap{}
		vars.Set("unrelated", 1)
	}
	res := jx.Run(d.files, "/main.jet", vars, "ctx", jx.NoEscape)
	c.Eval(1)
	c.Count("directed_block_visibility_cases", 1)
	if res.Failed() || res.Out != d.want {
		c.Violation("c09:includers-blocks:"+d.name, "", fmt.Sprintf("with a %s: rendered %s, want %q", c09varForms[form], res, d.want))
		return
	}
	c.Distinct("includers-blocks|" + d.name + "|" + c09varForms[form])
}
