package props

import (
	"bytes"
	"encoding/hex"
	"errors"
	"fmt"
	"io"
	"math/rand"
	"reflect"
	"strings"
	"text/template"

	"github.com/CloudyKit/jet/v6"
	"verifh/internal/fw"
	"verifh/internal/jx"
	"verifh/internal/prog"
)

// C01: every rendered value is escaped exactly once; only SafeWriters (as last command) bypass; text never.

type c01named string
type c01stringer struct{ s string }

func (s c01stringer) String() string { return s.s }

// unset interface-typed fields: their printed form is "<nil>" and is escaped like any other value
type c01nilFields struct {
	Err error
	Str fmt.Stringer
	Any interface{}
}

type c01value struct {
	name    string
	kind    string
	goVal   interface{}
	printed string
}

const c01specials = `<>&'"`

func c01str(r *rand.Rand, n int) string {
	alpha := []string{"<", ">", "&", "'", "\"", "a", "b", " ", "é", "日", "\x00", "\\", "/", "=", "\n", "<script>", "&amp;", "&#39;", "</b>"}
	var b strings.Builder
	for b.Len() < n {
		b.WriteString(alpha[r.Intn(len(alpha))])
	}
	return b.String()
}

// c01long: a string whose length is around a multiple of the 4096-byte print buffer, with specials on the boundaries.
func c01long(r *rand.Rand) string {
	k := 1 + r.Intn(2)
	n := 4096*k + r.Intn(7) - 3
	b := []byte(strings.Repeat("x", n))
	for _, p := range []int{4093, 4094, 4095, 4096, 4097, 8191, 8192, 0, n - 1} {
		if p >= 0 && p < n {
			b[p] = c01specials[r.Intn(len(c01specials))]
		}
	}
	return string(b)
}

func c01values(r *rand.Rand, idx int) []c01value {
	var vs []c01value
	add := func(kind string, v interface{}, printed string) {
		vs = append(vs, c01value{name: fmt.Sprintf("val%d", len(vs)+1), kind: kind, goVal: v, printed: printed})
	}
	s := func() string { return "S" + c01str(r, 3+r.Intn(12)) + "E" }
	x := s()
	add("string", x, x)
	x = s()
	add("named-string", c01named(x), x)
	x = s()
	add("[]byte", []byte(x), x)
	x = s()
	add("Stringer", c01stringer{x}, x)
	x = s()
	add("error", errors.New(x), x)
	x = s()
	px := x
	add("*string", &px, x)
	x = s()
	py := x
	ppy := &py
	add("**string", &ppy, x)
	a, b := s(), s()
	add("[]string", []string{a, b}, "["+a+" "+b+"]")
	k, v := s(), s()
	add("map[string]string", map[string]string{k: v}, "map["+k+":"+v+"]")
	add("nil-pointer", (*int)(nil), "<nil>")
	add("struct-with-nil-interface-fields", c01nilFields{}, "")
	add("int", -42, "-42")
	add("uint8", uint8(200), "200")
	add("bool", true, "true")
	add("float", 1.5, "1.5")
	x = s()
	add("interface-holding-string", []interface{}{x}, "["+x+"]")
	x = s()
	add("*bytes.Buffer", bytes.NewBufferString(x), x) // a Stringer that is an io.WriterTo as well
	x = s()
	add("*strings.Builder", c01builder(x), x)
	if idx%10 == 0 {
		l := c01long(r)
		add("long-string", l, l)
		l2 := c01long(r)
		add("long-[]byte", []byte(l2), l2)
	}
	return vs
}

func c01builder(s string) *strings.Builder {
	var b strings.Builder
	b.WriteString(s)
	return &b
}

func c01hexTag(open, close byte) func(string) string {
	return func(s string) string {
		if s == "" {
			return ""
		}
		return string(open) + hex.EncodeToString([]byte(s)) + string(close)
	}
}

// merge adjacent tags: a value printed in several Write calls yields several tags
func c01merge(s string) string {
	s = strings.ReplaceAll(s, "\x02\x01", "")
	return strings.ReplaceAll(s, "\x04\x03", "")
}

func c01n(tier string) int {
	if tier == "thorough" {
		return 300000
	}
	return 8000
}

func c01run(c *fw.Ctx, idx int) {
	if idx < len(c01directed)+len(c01moreCases) {
		c01runDirected(c, idx)
		return
	}
	r := c.Rand(idx, "c01")
	vals := c01values(r, idx)
	extra := map[string]interface{}{}
	var opaques []prog.Opaque
	kindOf := map[string]string{}
	for _, v := range vals {
		extra[v.name] = v.goVal
		if v.kind == "struct-with-nil-interface-fields" {
			for _, f := range []string{"Err", "Str", "Any"} {
				opaques = append(opaques, prog.Opaque{Src: v.name + "." + f, Val: prog.Str("<nil>")})
			}
			continue
		}
		opaques = append(opaques, prog.Opaque{Src: v.name, Val: prog.Str(v.printed)})
		kindOf[v.name] = v.kind
	}
	// values written in the template itself: a string literal rendered by an action is a value like any other
	for i := 0; i < 2; i++ {
		x := "S" + c01str(r, 3+r.Intn(12)) + "E"
		src := fmt.Sprintf("%q", x)
		if i == 1 && !strings.ContainsAny(x, "`\x00") {
			src = "`" + x + "`"
		}
		opaques = append(opaques, prog.Opaque{Src: src, Val: prog.Str(x)})
		kindOf[src] = "string-literal"
	}
	userw := jet.SafeWriter(func(w io.Writer, b []byte) { w.Write([]byte(c01hexTag(3, 4)(string(b)))) })
	extra["userw"] = userw
	cfg := prog.Cfg{Items: 3, MaxDepth: 3, Ifs: true, Ranges: true, Vars: idx%2 == 0, Blocks: true, MultiFile: idx%2 == 0, Includes: true, Try: true, Fails: true, Ctx: true, ExecNoReturn: true, IncludeIfExists: idx%3 == 0,
		Values: opaques, Writers: []string{"raw", "unsafe", "safeHtml", "userw"}}
	if idx%10 != 0 {
		cfg.Writers = append(cfg.Writers, "safeJs") // rune-aware: not combined with values longer than the print buffer
	}
	p, feats := prog.Gen(r, cfg)
	c.Begin(idx, map[string]interface{}{"files": p.Sources(false), "main": p.Main, "values": func() map[string]string {
		m := map[string]string{}
		for _, v := range vals {
			pv := v.printed
			if len(pv) > 80 {
				pv = pv[:40] + fmt.Sprintf("...(%d bytes)...", len(pv)) + pv[len(pv)-20:]
			}
			m[v.name] = v.kind + ": " + pv
		}
		return m
	}()})
	defer c.End()
	writers := map[string]func(string) string{
		"raw": func(s string) string { return s }, "unsafe": func(s string) string { return s },
		"safeHtml": template.HTMLEscapeString, "safeJs": template.JSEscapeString, "userw": c01hexTag(3, 4),
	}
	type config struct {
		name string
		opt  jet.Option
		esc  func(string) string
	}
	tagEsc := jet.SafeWriter(func(w io.Writer, b []byte) { w.Write([]byte(c01hexTag(1, 2)(string(b)))) })
	configs := []config{
		{"default-html", nil, template.HTMLEscapeString},
		{"nil-escaper", jet.WithSafeWriter(nil), nil},
		{"tagging-escaper", jet.WithSafeWriter(tagEsc), c01hexTag(1, 2)},
	}
	// the option given last is the Set's escaper (e.g. shared base options switching escaping off, overridden per Set)
	switch idx % 4 {
	case 1:
		configs[2] = config{"nil-then-tagging-escaper", c01opts(jet.WithSafeWriter(nil), jet.WithSafeWriter(tagEsc)), c01hexTag(1, 2)}
	case 2:
		configs[1] = config{"tagging-then-nil-escaper", c01opts(jet.WithSafeWriter(tagEsc), jet.WithSafeWriter(nil)), nil}
	case 3:
		configs[0] = config{"nil-then-html-escaper", c01opts(jet.WithSafeWriter(nil), jet.WithSafeWriter(template.HTMLEscape)), template.HTMLEscapeString}
	}
	fm := map[string]bool{}
	for _, f := range feats {
		fm[f] = true
	}
	for _, cf := range configs {
		m := prog.EvalWith(p, cf.esc, writers)
		if m.Unspecified != "" {
			c.Count("discarded_unspecified:"+m.Unspecified, 1)
			return
		}
		var opts []jet.Option
		if cf.opt != nil {
			opts = append(opts, cf.opt)
		}
		o := p.Run(prog.RunOpts{Opts: opts, ExtraVars: extra})
		c.Eval(1)
		m.Out, o.Out = c01merge(m.Out), c01merge(o.Out)
		if class, detail := prog.Compare(m, o, false); class != "" {
			what := class
			if class == "output" {
				what = c01classify(m.Out, o.Out, cf.name)
			}
			c.Violation("c01:"+cf.name+":"+what, "", map[string]interface{}{"mismatch": class, "detail": c01short(detail), "escaper": cf.name})
			return
		}
		c.Count("executions_"+cf.name, 1)
	}
	// rebinding: the SAME parsed templates (one Set) executed with the name userw bound to a SafeWriter, then to an
	// ordinary function (whose result is a value like any other: escaped), then to the SafeWriter again; which
	// binding comes first alternates. What bypasses the escaper is decided per execution, never remembered.
	if fm["writer-userw"] {
		cf := configs[idx%3]
		var opts []jet.Option
		if cf.opt != nil {
			opts = append(opts, cf.opt)
		}
		set := p.NewSet(false, opts...)
		const plain = "<U&'\">"
		asFunc := func(interface{}) string { return plain }
		escd := plain
		if cf.esc != nil {
			escd = cf.esc(plain)
		}
		for step := 0; step < 3; step++ {
			isWriter := (step+idx)%2 == 0
			w2 := map[string]func(string) string{}
			for k, v := range writers {
				w2[k] = v
			}
			ex2 := map[string]interface{}{}
			for k, v := range extra {
				ex2[k] = v
			}
			if !isWriter {
				w2["userw"] = func(string) string { return escd }
				ex2["userw"] = asFunc
			}
			m := prog.EvalWith(p, cf.esc, w2)
			if m.Unspecified != "" {
				break
			}
			o := p.Run(prog.RunOpts{Set: set, ExtraVars: ex2})
			c.Eval(1)
			m.Out, o.Out = c01merge(m.Out), c01merge(o.Out)
			if class, detail := prog.Compare(m, o, false); class != "" {
				c.Journal(map[string]interface{}{"rebinding_step": step, "userw_is_safewriter": isWriter})
				c.Violation("c01:rebinding:"+cf.name+":"+class, "", map[string]interface{}{"mismatch": class, "detail": c01short(detail), "escaper": cf.name, "step": step, "userw_is_safewriter": isWriter})
				return
			}
			c.Count("executions_rebinding", 1)
		}
	}
	sites := 0
	for _, f := range feats {
		if strings.HasPrefix(f, "site@") {
			sites++
			c.Count("value_site_contexts", 1)
			if strings.Count(f, ">") >= 1 {
				c.Distinct(f + "|" + fmt.Sprint(fm["writer-raw"], fm["writer-safeHtml"], fm["writer-userw"], fm["writer-safeJs"], fm["writer-form-0"], fm["writer-form-1"], fm["writer-form-2"]))
			}
		}
	}
	if idx%211 == 5 {
		c.Sample(map[string]interface{}{"files": p.Sources(false), "features": feats})
	}
}

// c01opts applies several options in order as one.
func c01opts(os ...jet.Option) jet.Option {
	return func(s *jet.Set) {
		for _, o := range os {
			o(s)
		}
	}
}

func c01short(s string) string {
	if len(s) > 3000 {
		return s[:1500] + " ... " + s[len(s)-1200:]
	}
	return s
}

// c01classify names the kind of escaping violation from the first difference.
func c01classify(want, got, cfg string) string {
	i := 0
	for i < len(want) && i < len(got) && want[i] == got[i] {
		i++
	}
	w, g := want[i:], got[i:]
	switch {
	case cfg == "tagging-escaper" && strings.HasPrefix(w, "\x01") && !strings.HasPrefix(g, "\x01"):
		return "value-not-escaped"
	case cfg == "tagging-escaper" && strings.HasPrefix(g, "\x01") && !strings.HasPrefix(w, "\x01"):
		return "escaped-what-must-not-be"
	case cfg == "default-html" && len(g) > 0 && strings.ContainsRune(c01specials, rune(g[0])):
		return "raw-special-byte"
	case cfg == "default-html" && strings.HasPrefix(g, "amp;"):
		return "escaped-twice"
	}
	return "output-differs"
}

var c01directed = []struct{ name, src string }{
	{"safewriter-not-last-prefix", `{{ raw: val1 | trimSpace }}`},
	{"safewriter-not-last-piped", `{{ val1 | raw | trimSpace }}`},
	{"safewriter-not-last-call", `{{ unsafe(val1) | upperish }}`},
	{"safewriter-not-last-user", `{{ val1 | userw | trimSpace }}`},
	{"safewriter-not-last-safeHtml", `{{ safeHtml: val1 | isset }}`},
	{"safewriter-first-then-jetfunc", `{{ unsafe: val1 | isset }}`},
}

// c01more: directed cases judged under the three escaper configurations.
func c01more(c *fw.Ctx, idx int, which string) {
	const val = `<v&'">`
	c.Begin(idx, map[string]interface{}{"directed": which})
	defer c.End()
	tagEsc := jet.SafeWriter(func(w io.Writer, b []byte) { w.Write([]byte(c01hexTag(1, 2)(string(b)))) })
	type cfgT struct {
		name string
		opts []jet.Option
		esc  func(string) string
	}
	cfgs := []cfgT{{"nil-escaper", []jet.Option{jet.WithSafeWriter(nil)}, func(s string) string { return s }},
		{"default-html", nil, template.HTMLEscapeString}, {"tagging-escaper", []jet.Option{jet.WithSafeWriter(tagEsc)}, c01hexTag(1, 2)}}
	switch which {
	case "dump-is-a-value":
		// what the dump built-in evaluates to is a value like any other (dump is no SafeWriter): escaped once
		var raw string
		for _, cf := range cfgs {
			vars := jet.VarMap{}
			vars.Set("val1", val)
			res := jx.Run(map[string]string{"/t.jet": `[{{ dump("val1") }}]`}, "/t.jet", vars, nil, cf.opts...)
			c.Eval(1)
			if res.Failed() || len(res.Out) < 2 {
				c.Violation("c01:dump:failed:"+cf.name, "", res.String())
				return
			}
			inner := c01merge(res.Out[1 : len(res.Out)-1])
			if cf.name == "nil-escaper" {
				raw = inner
				if !strings.Contains(raw, "<v&") {
					c.Violation("c01:dump:harness", "", "dump output does not show the value: "+raw)
					return
				}
				continue
			}
			if inner != cf.esc(raw) {
				c.Violation("c01:dump:"+cf.name+":value-not-escaped-exactly-once", "", fmt.Sprintf("dump rendered %q; unescaped it is %q", c01short(inner), c01short(raw)))
				return
			}
		}
	case "safewriter-command-whose-argument-renders-through-another-safewriter":
		// a SafeWriter command with several arguments, one of which renders a piece of template that uses another
		// SafeWriter (includeIfExists; a function yielding a block): the arguments printed afterwards still go through
		// the command's own SafeWriter
		upper := jet.SafeWriter(func(w io.Writer, b []byte) { w.Write([]byte("[" + strings.ToUpper(string(b)) + "]")) })
		for _, cf := range cfgs {
			files := map[string]string{"/part.jet": `<i>{{ .C | raw }}</i>`,
				"/main.jet": `{{ block item() }}({{ . | safeHtml }}){{ end }}|{{ safeHtml: .A, includeIfExists("/part.jet", .), .B }}|{{ upperw: "a<", item("<x>"), "b<" }}|{{ .B }}`}
			vars := jet.VarMap{}
			vars.Set("upperw", upper)
			vars.SetFunc("item", func(a jet.Arguments) reflect.Value {
				a.Runtime().YieldBlock("item", a.Get(0).Interface())
				return reflect.ValueOf("")
			})
			data := map[string]interface{}{"A": `<a x="1">`, "B": `<b>'q'`, "C": `<c>`}
			res := jx.Run(files, "/main.jet", vars, data, cf.opts...)
			c.Eval(1)
			h := template.HTMLEscapeString
			want := "(" + h(fmt.Sprint(data)) + ")|" + h(`<a x="1">`) + "<i><c></i>" + h("true") + h(`<b>'q'`) + "|[A<](" + h("<x>") + ")[B<]|" + cf.esc(`<b>'q'`)
			if res.Failed() || c01merge(res.Out) != want {
				c.Violation("c01:nested-safewriter:"+cf.name, "", fmt.Sprintf("rendered %s, want %q", res, want))
				return
			}
		}
	case "execution-nested-inside-exec":
		// an execution started (by a Go function) while another one is inside exec(): both escape their values as always
		for _, cf := range cfgs {
			set, _ := jx.NewSet(map[string]string{"/main.jet": `A{{ val1 }}|{{ exec("/sub.jet") }}|{{ val1 }}`, "/sub.jet": `{{ nested() }}{{ return val1 }}`, "/inner.jet": `I{{ val1 }}`}, cf.opts...)
			nestedOut := "not run"
			vars := jet.VarMap{}
			vars.Set("val1", val)
			vars.Set("nested", func() string {
				r := jx.RunSet(set, "/inner.jet", jet.VarMap{}.Set("val1", val), nil)
				nestedOut = r.String()
				if !r.Failed() {
					nestedOut = r.Out
				}
				return ""
			})
			res := jx.RunSet(set, "/main.jet", vars, nil)
			c.Eval(2)
			e := cf.esc(val)
			if got, want := c01merge(nestedOut), "I"+e; got != want {
				c.Violation("c01:nested-execution-inside-exec:"+cf.name, "", fmt.Sprintf("the nested execution rendered %q, want %q", got, want))
				return
			}
			if got, want := c01merge(res.Out), "A"+e+"|"+e+"|"+e; res.Failed() || got != want {
				c.Violation("c01:execution-around-exec:"+cf.name, "", fmt.Sprintf("rendered %s, want %q", res, want))
				return
			}
		}
	}
	c.Count("directed_"+which, 1)
	c.Distinct("directed|" + which)
}

var c01moreCases = []string{"dump-is-a-value", "execution-nested-inside-exec", "safewriter-command-whose-argument-renders-through-another-safewriter"}

func c01runDirected(c *fw.Ctx, idx int) {
	if idx >= len(c01directed) {
		c01more(c, idx, c01moreCases[idx-len(c01directed)])
		return
	}
	d := c01directed[idx]
	c.Begin(idx, map[string]interface{}{"directed": d.name, "template": d.src})
	defer c.End()
	p := &prog.Program{Main: "/main.jet", Files: []*prog.File{{Path: "/main.jet", Body: []prog.Node{&prog.Text{S: "a"}, &prog.RawFail{Src: d.src}, &prog.Text{S: "b"}}}}, Vars: map[string]prog.Value{}}
	userw := jet.SafeWriter(func(w io.Writer, b []byte) { w.Write(b) })
	o := p.Run(prog.RunOpts{ExtraVars: map[string]interface{}{"val1": "<x>", "userw": userw, "upperish": strings.ToUpper}})
	c.Count("directed_safewriter_not_last", 1)
	if o.Panic != nil || o.ParseErr != nil || o.Err == nil {
		c.Violation("c01:"+d.name+":accepted", "", fmt.Sprintf("a SafeWriter that is not the last command must make Execute return an error: out=%q err=%v parse=%v panic=%v", o.Out, o.Err, o.ParseErr, o.Panic))
		return
	}
	c.Distinct("directed|" + d.name)
}

func init() {
	fw.Register(&fw.Property{
		ID:        "C01",
		Technique: "taint accounting on the output stream: generated programs executed under three Set escapers (default HTML, nil, tagging SafeWriter) and compared with the reference evaluator's escaped-exactly-once output",
		Rule: "each case is a generated template set whose value sites render data of 15-17 kinds (string, named string, []byte, Stringer, error, *string, **string, []string, map, nil pointer, ints, bool, float, interface; every 10th case strings/[]byte of length 4096k±3 with specials on the print-buffer boundaries) built over an alphabet with < > & ' \" NUL and multi-byte runes; " +
			"sites are plain actions or end in a SafeWriter (raw, unsafe, safeHtml, safeJs, a user tagging writer) in piped, prefix and call form, and sit at top level, in if/range, block definitions, yielded blocks, yield content, default content, included/extended/imported templates, try and catch bodies, exec'd templates (must not appear); " +
			"oracle per escaper configuration: the real output equals literal text verbatim + escaper(value) for plain sites + writer(value) for SafeWriter sites (tags of one value merged), so unescaped, doubly escaped, truncated or reordered values and escaped text all show; 6 directed cases: a SafeWriter that is not the last command must be an error; 2 more: the value of dump() is escaped once, an execution nested (through a Go function) inside exec() escapes as always; " +
			"non-trivial = a value site below at least one construct; distinct by (construct path of the site, writers/forms used) Since waves 8/9 the value list also holds two string literals written in the template (quoted and raw), a *bytes.Buffer and a *strings.Builder.",
		Assumptions: []string{"template.HTMLEscapeString/JSEscapeString equal the SafeWriters template.HTMLEscape/JSEscape on whole values", "Renderer values are out of scope (they render themselves)", "values sent through safeJs are shorter than the 4096-byte print buffer (rune-aware writer, DESIGN 2.4)"},
		NCases:      c01n,
		RunCase:     c01run,
		MinDistinct: 200,
	})
}
