package props

import (
	"fmt"
	"strings"

	"github.com/CloudyKit/jet/v6"
	"verifh/internal/fw"
	"verifh/internal/jx"
)

// Name resolution under rebinding (used by C07 and C14): the same parsed templates, on one Set, are executed several
// times while the name of a built-in is (re)bound in the VarMap passed to Execute and in the Set's globals. In every
// execution every call site - action, assignment, condition, operand, pipe stage, prefix call - must call what the
// name resolves to *now*: local scope, then VarMap, then Set globals, then built-ins; hence x | f equals f(x).

var rebindBody = `A:{{ FN("a") }}|B:{{ x := FN("b") }}{{ x }}|C:{{ if FN("c") == wc }}y{{ else }}n{{ end }}|D:{{ "d" | FN }}|E:{{ "e" + FN("e") }}|F:{{ FN: "f" }}|G:{{ "g" | FN() }}|H:{{ "H" | lower | FN }}|I:{{ yy := "i" + FN("i") + "i" }}{{ yy }}|J:{{ range k := ints(0, 2) }}{{ FN("j") }}{{ "j" | FN }}{{ end }}|K:{{ FN(FN("k")) }}|L:{{ "l" | FN | FN }}`

func rebindTag(tag string) func(string) string {
	return func(s string) string { return "[" + tag + ":" + s + "]" }
}

func rebindExpect(fn func(string) string) string {
	return "A:" + fn("a") + "|B:" + fn("b") + "|C:y|D:" + fn("d") + "|E:e" + fn("e") + "|F:" + fn("f") + "|G:" + fn("g") + "|H:" + fn("h") + "|I:i" + fn("i") + "i" +
		"|J:" + fn("j") + fn("j") + fn("j") + fn("j") + "|K:" + fn(fn("k")) + "|L:" + fn(fn("l"))
}

const nRebind = 60

func rebindCase(c *fw.Ctx, idx int, prop string) {
	r := c.Rand(idx, "rebind")
	name := []string{"upper", "trimSpace", "lower"}[idx%3]
	builtin := map[string]func(string) string{"upper": strings.ToUpper, "trimSpace": strings.TrimSpace, "lower": strings.ToLower}[name]
	body := strings.ReplaceAll(rebindBody, "FN", name)
	if name == "lower" {
		body = strings.ReplaceAll(body, `"H" | lower | lower`, `"H" | upper | lower`)
	}
	files := map[string]string{
		"/plain.jet":  body,
		"/local.jet":  "{{ " + name + " := lf }}" + body,
		"/inc.jet":    `<{{ include "/plain.jet" }}>`,
		"/block.jet":  `{{ block b() }}` + body + `{{ end }}`,
		"/nested.jet": `{{ if true }}{{ ` + name + ` := lf }}{{ ` + name + `("in") }}{{ end }}|` + body,
	}
	set, _ := jx.NewSet(files, jx.NoEscape)
	c.Begin(idx, map[string]interface{}{"directed": "name resolution under rebinding on one Set", "name": name, "templates": files})
	defer c.End()
	var global func(string) string
	var hist []string
	n := 4 + r.Intn(6)
	for step := 0; step < n; step++ {
		if r.Intn(4) == 0 {
			tag := fmt.Sprintf("g%d", step)
			global = rebindTag(tag)
			set.AddGlobal(name, global)
			hist = append(hist, "AddGlobal("+name+" -> "+tag+")")
		}
		vars := jet.VarMap{}
		eff, src := builtin, "built-in"
		if global != nil {
			eff, src = global, "global"
		}
		if r.Intn(2) == 0 {
			tag := fmt.Sprintf("v%d", step)
			eff, src = rebindTag(tag), "VarMap "+tag
			vars.Set(name, eff)
		}
		lf := rebindTag("local")
		vars.Set("lf", lf)
		tpl := []string{"/plain.jet", "/local.jet", "/inc.jet", "/block.jet", "/nested.jet"}[r.Intn(5)]
		var want string
		switch tpl {
		case "/local.jet":
			eff, src = lf, "local variable"
			want = rebindExpect(eff)
		case "/inc.jet":
			want = "<" + rebindExpect(eff) + ">"
		case "/nested.jet":
			want = lf("in") + "|" + rebindExpect(eff)
		default:
			want = rebindExpect(eff)
		}
		if name == "lower" { // H pipes through upper first
			want = strings.Replace(want, "|H:"+eff("h"), "|H:"+eff("H"), 1)
		}
		vars.Set("wc", eff("c"))
		hist = append(hist, fmt.Sprintf("Execute(%s) with %s resolving to the %s", tpl, name, src))
		res := jx.RunSet(set, tpl, vars, nil)
		c.Eval(1)
		c.Count("rebinding_executions", 1)
		if res.Failed() || res.Out != want {
			c.Journal(map[string]interface{}{"history": hist})
			site := "?"
			ws, gs := strings.Split(want, "|"), strings.Split(res.Out, "|")
			for i := range ws {
				if i >= len(gs) || ws[i] != gs[i] {
					site = strings.SplitN(ws[i], ":", 2)[0]
					break
				}
			}
			c.Violation(strings.ToLower(prop)+":rebinding:call-site-"+site+":"+src[:strings.IndexAny(src+" ", " ")], "", fmt.Sprintf("step %d: %s rendered %s, want %q; history %v", step, tpl, res, want, hist))
			return
		}
	}
	c.Distinct(fmt.Sprintf("rebinding|%s|%d", name, idx))
}
