package props

import (
	"fmt"
	"strings"

	"github.com/CloudyKit/jet/v6"
	"verifh/internal/fw"
	"verifh/internal/jx"
)

// Directed C13 cases: a catch body that executes {{return value}}. The program model leaves "return outside exec"
// open, so these are judged on their own: whether rendering goes on after such a return is not what is checked (the
// output may stop there: any prefix of the expected output is accepted) - but if it goes on, the catch variable is gone,
// outer variables are what they were and '.' is what it was.
var c13directedCases = []struct{ name, src, want string }{
	{"catch-var-gone", `{{try}}{{nosuchvar}}{{catch e}}C{{return 1}}{{end}}|{{isset(e)}}|{{.}}`, "C|false|ctx"},
	{"outer-var-back", `{{e := "outer"}}{{try}}{{nosuchvar}}{{catch e}}{{return "r"}}{{end}}{{e}}|{{.}}`, "outer|ctx"},
	{"in-if", `{{if true}}{{try}}{{nosuchvar}}{{catch err}}c{{return 2}}{{end}}[{{isset(err)}}]{{end}}|{{isset(err)}}`, "c[false]|false"},
	{"in-range", `{{range i := ints(0, 2)}}{{try}}{{nosuchvar}}{{catch e}}c{{return i}}{{end}}[{{isset(e)}}{{.}}]{{end}}|{{isset(e)}}{{.}}`, "c[false0]|falsectx\x00c[false0]c[false1]|falsectx"}, // whether the return ends the loop it is in is left open
	{"in-block", `{{block b()}}{{try}}{{nosuchvar}}{{catch e}}c{{return "v"}}{{end}}[{{isset(e)}}]{{end}}|{{isset(e)}}`, "c[false]|false"},
	{"in-content", `{{block w()}}<{{yield content}}>{{end}}{{yield w() content}}{{try}}{{nosuchvar}}{{catch e}}c{{return 1}}{{end}}[{{isset(e)}}]{{end}}|{{isset(e)}}`, "<><c[false]>|false"},
	{"in-include", `{{include "/inc.jet"}}|{{isset(e)}}`, "c[false]|false"},
	{"nested-try", `{{try}}{{try}}{{nosuchvar}}{{catch e}}c{{return 1}}{{end}}[{{isset(e)}}]{{nosuch2}}{{catch f}}d{{return 2}}{{end}}|{{isset(e)}}{{isset(f)}}`, "d|falsefalse"}, // the outer body fails after the inner try: all of its output is dropped
	{"shadowing-let-after", `{{try}}{{nosuchvar}}{{catch e}}{{return 1}}{{end}}{{e := "mine"}}{{e}}`, "mine"},
	{"no-catch-var", `{{v := "keep"}}{{try}}{{nosuchvar}}{{catch}}c{{v = "set"}}{{return 1}}{{end}}{{v}}|{{isset(e)}}`, "cset|false"},
}

// a catch-less try contains the failure of its body wherever its output goes (the discarding writer of exec included)
func init() {
	c13directedCases = append(c13directedCases,
		struct{ name, src, want string }{"catchless-try-inside-exec", `before|{{ exec("/sub.jet") }}|after`, "before|fallback|after"},
		struct{ name, src, want string }{"catchless-try-inside-exec-inside-try", `{{try}}A{{ exec("/sub.jet") }}B{{catch}}CAUGHT{{end}}|after`, "AfallbackB|after"},
		struct{ name, src, want string }{"catchless-try-inside-exec-with-context", `{{ exec("/sub.jet", "c") }}|{{.}}`, "fallback|ctx"},
	)
	c13nDirected = len(c13directedCases)
	c13.nDirected = c13nDirected
}

var c13nDirected = len(c13directedCases)

func c13directedCase(c *fw.Ctx, idx int) bool {
	d := c13directedCases[idx]
	files := map[string]string{"/t.jet": d.src, "/inc.jet": `{{try}}{{nosuchvar}}{{catch e}}c{{return 1}}{{end}}[{{isset(e)}}]`,
		"/sub.jet": `x{{try}}y{{nosuchvar}}z{{end}}w{{return "fallback"}}`}
	c.Begin(idx, map[string]interface{}{"directed": "catch body executing return", "name": d.name, "files": files})
	defer c.End()
	res := jx.Run(files, "/t.jet", jet.VarMap{}, "ctx", jx.NoEscape)
	c.Count("directed_catch_return_cases", 1)
	c.Eval(1)
	ok := false
	for _, w := range strings.Split(d.want, "\x00") {
		if strings.HasPrefix(w, res.Out) {
			ok = true
		}
	}
	if strings.HasPrefix(d.name, "catchless") {
		ok = res.Err == nil && res.Out == d.want // no return outside exec here: the rendering must go on to the end
	}
	if res.Panic != nil || res.ParseErr != nil || !ok || (res.Err == nil && res.Out == "") {
		c.Violation("c13:catch-with-return:"+d.name, "", fmt.Sprintf("rendered %s; expected %q (or a prefix of it, should the return end the rendering)", res, d.want))
		return true
	}
	if res.Out == strings.Split(d.want, "\x00")[0] {
		c.Count("directed_catch_return_rendering_went_on", 1)
	}
	c.Distinct("catch-return|" + d.name)
	return true
}

func init() {
	c13.nDirected = c13nDirected
	c13.directed = c13directedCase
}
