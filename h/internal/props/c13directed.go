package props

import (
	"errors"
	"fmt"
	"strings"

	"github.com/CloudyKit/jet/v6"
	"verifh/internal/fw"
	"verifh/internal/jx"
)

// Directed C13 cases: a catch body that executes {{return value}}. The program model leaves "return outside exec"
// open, so these are judged on their own: whether rendering goes on after such a return is not what is checked (the
// output may stop there: any prefix of the expected output is accepted) - but if it goes on, the catch variable is gone,
// outer variables are what they were and '.' is what it was.
var c13directedCases = []struct{ name, src, want string }{
	{"catch-var-gone", `{{try}}{{nosuchvar}}{{catch e}}C{{return 1}}{{end}}|{{isset(e)}}|{{.}}`, "C|false|ctx"},
	{"outer-var-back", `{{e := "outer"}}{{try}}{{nosuchvar}}{{catch e}}{{return "r"}}{{end}}{{e}}|{{.}}`, "outer|ctx"},
	{"in-if", `{{if true}}{{try}}{{nosuchvar}}{{catch err}}c{{return 2}}{{end}}[{{isset(err)}}]{{end}}|{{isset(err)}}`, "c[false]|false"},
	{"in-range", `{{range i := ints(0, 2)}}{{try}}{{nosuchvar}}{{catch e}}c{{return i}}{{end}}[{{isset(e)}}{{.}}]{{end}}|{{isset(e)}}{{.}}`, "c[false0]|falsectx\x00c[false0]c[false1]|falsectx"}, // whether the return ends the loop it is in is left open
	{"in-block", `{{block b()}}{{try}}{{nosuchvar}}{{catch e}}c{{return "v"}}{{end}}[{{isset(e)}}]{{end}}|{{isset(e)}}`, "c[false]|false"},
	{"in-content", `{{block w()}}<{{yield content}}>{{end}}{{yield w() content}}{{try}}{{nosuchvar}}{{catch e}}c{{return 1}}{{end}}[{{isset(e)}}]{{end}}|{{isset(e)}}`, "<><c[false]>|false"},
	{"in-include", `{{include "/inc.jet"}}|{{isset(e)}}`, "c[false]|false"},
	{"nested-try", `{{try}}{{try}}{{nosuchvar}}{{catch e}}c{{return 1}}{{end}}[{{isset(e)}}]{{nosuch2}}{{catch f}}d{{return 2}}{{end}}|{{isset(e)}}{{isset(f)}}`, "d|falsefalse"}, // the outer body fails after the inner try: all of its output is dropped
	{"shadowing-let-after", `{{try}}{{nosuchvar}}{{catch e}}{{return 1}}{{end}}{{e := "mine"}}{{e}}`, "mine"},
	{"no-catch-var", `{{v := "keep"}}{{try}}{{nosuchvar}}{{catch}}c{{v = "set"}}{{return 1}}{{end}}{{v}}|{{isset(e)}}`, "cset|false"},
}

// a catch-less try contains the failure of its body wherever its output goes (the discarding writer of exec included)
func init() {
	c13directedCases = append(c13directedCases,
		struct{ name, src, want string }{"catchless-try-inside-exec", `before|{{ exec("/sub.jet") }}|after`, "before|fallback|after"},
		struct{ name, src, want string }{"catchless-try-inside-exec-inside-try", `{{try}}A{{ exec("/sub.jet") }}B{{catch}}CAUGHT{{end}}|after`, "AfallbackB|after"},
		struct{ name, src, want string }{"catchless-try-inside-exec-with-context", `{{ exec("/sub.jet", "c") }}|{{.}}`, "fallback|ctx"},
	)
	// a try whose body finishes without error writes exactly what the body writes outside a try - also when the body
	// executes a {{return}} (which is no error, whatever it means for the rest of the rendering): 'want' holds the same
	// template without the try
	for _, p := range [][3]string{
		{"return-in-body", `a{{try}}b{{return "v"}}c{{end}}d`, `ab{{return "v"}}cd`},
		{"return-in-body-with-catch", `a{{try}}b{{return 1}}c{{catch}}X{{end}}d|{{.}}`, `ab{{return 1}}cd|{{.}}`},
		{"return-in-if-in-body", `a{{try}}{{if true}}b{{return 1}}{{end}}c{{end}}d`, `a{{if true}}b{{return 1}}{{end}}cd`},
		{"return-in-range-in-body", `a{{try}}{{range i := ints(0, 2)}}b{{return i}}{{end}}c{{end}}d`, `a{{range i := ints(0, 2)}}b{{return i}}{{end}}cd`},
		{"return-in-included-body", `a{{include "/rettry.jet"}}d`, `a{{include "/retplain.jet"}}d`},
		{"return-in-nested-try", `a{{try}}b{{try}}c{{return "v"}}{{end}}d{{end}}e`, `abc{{return "v"}}de`},
		{"return-in-block-yielded-in-body", `{{block rb()}}r{{return "v"}}s{{end}}|{{try}}x{{yield rb()}}y{{end}}z`, `{{block rb()}}r{{return "v"}}s{{end}}|x{{yield rb()}}yz`},
	} {
		c13directedCases = append(c13directedCases, struct{ name, src, want string }{"sameas-outside-try:" + p[0], p[1], p[2]})
	}
	// the catch variable is the very error that made the body fail (a wrapping error stays the wrapping error)
	c13directedCases = append(c13directedCases,
		struct{ name, src, want string }{"strict:catch-variable-is-the-wrapping-error", `{{try}}a{{ failwrap() }}b{{catch e}}[{{ e.Error() }}]{{end}}|{{try}}{{ failtyped() }}{{catch e}}[{{ e.Stage }}:{{ e.Error() }}]{{end}}`, "[stage 2: inner cause]|[7:typed: inner cause]"},
		struct{ name, src, want string }{"strict:catch-variable-of-a-failed-exec", `{{try}}{{ exec("/nosuch.jet") }}{{catch e}}[{{ isset(e) }}{{ hasPrefix(e.Error(), "template /nosuch.jet") || hasPrefix(e.Error(), "exec") || len(e.Error()) > 10 }}]{{end}}`, "[truetrue]"},
	)
	c13nDirected = len(c13directedCases)
	c13.nDirected = c13nDirected
}

type c13typedErr struct {
	Stage int
	cause error
}

func (e *c13typedErr) Error() string { return "typed: " + e.cause.Error() }
func (e *c13typedErr) Unwrap() error { return e.cause }

func c13vars() jet.VarMap {
	v := jet.VarMap{}
	v.Set("failwrap", func() string { panic(fmt.Errorf("stage 2: %w", errors.New("inner cause"))) })
	v.Set("failtyped", func() string { panic(&c13typedErr{Stage: 7, cause: errors.New("inner cause")}) })
	return v
}

var c13nDirected = len(c13directedCases)

func c13directedCase(c *fw.Ctx, idx int) bool {
	d := c13directedCases[idx]
	files := map[string]string{"/t.jet": d.src, "/inc.jet": `{{try}}{{nosuchvar}}{{catch e}}c{{return 1}}{{end}}[{{isset(e)}}]`,
		"/sub.jet": `x{{try}}y{{nosuchvar}}z{{end}}w{{return "fallback"}}`, "/rettry.jet": `{{try}}b{{return "v"}}c{{end}}`, "/retplain.jet": `b{{return "v"}}c`}
	if strings.HasPrefix(d.name, "sameas-outside-try:") {
		files["/plain.jet"] = d.want
		c.Begin(idx, map[string]interface{}{"directed": "a successful try body renders what it renders outside a try", "name": d.name, "files": files})
		defer c.End()
		with := jx.Run(files, "/t.jet", jet.VarMap{}, "ctx", jx.NoEscape)
		without := jx.Run(files, "/plain.jet", jet.VarMap{}, "ctx", jx.NoEscape)
		c.Count("directed_same_as_outside_try_cases", 1)
		c.Eval(2)
		if with.Panic != nil || with.ParseErr != nil || without.Failed() || with.Err != nil || with.Out != without.Out || without.Out == "" {
			c.Violation("c13:"+d.name, "", fmt.Sprintf("with try: %s; the same body outside a try: %s", with, without))
			return true
		}
		c.Distinct("sameas|" + d.name)
		return true
	}
	c.Begin(idx, map[string]interface{}{"directed": "catch body executing return", "name": d.name, "files": files})
	defer c.End()
	res := jx.Run(files, "/t.jet", c13vars(), "ctx", jx.NoEscape)
	c.Count("directed_catch_return_cases", 1)
	c.Eval(1)
	ok := false
	for _, w := range strings.Split(d.want, "\x00") {
		if strings.HasPrefix(w, res.Out) {
			ok = true
		}
	}
	if strings.HasPrefix(d.name, "catchless") || strings.HasPrefix(d.name, "strict:") {
		ok = res.Err == nil && res.Out == d.want // no return outside exec here: the rendering must go on to the end
	}
	if res.Panic != nil || res.ParseErr != nil || !ok || (res.Err == nil && res.Out == "") {
		c.Violation("c13:catch-with-return:"+d.name, "", fmt.Sprintf("rendered %s; expected %q (or a prefix of it, should the return end the rendering)", res, d.want))
		return true
	}
	if res.Out == strings.Split(d.want, "\x00")[0] {
		c.Count("directed_catch_return_rendering_went_on", 1)
	}
	c.Distinct("catch-return|" + d.name)
	return true
}

func init() {
	c13.nDirected = c13nDirected
	c13.directed = c13directedCase
}
