package props

import (
	"embed"
	"fmt"
	"io"
	"io/fs"
	"math/rand"
	"net/http"
	"os"
	"path"
	"path/filepath"
	"sort"
	"strings"

	"github.com/CloudyKit/jet/v6"
	"github.com/CloudyKit/jet/v6/loaders/embedfs"
	"github.com/CloudyKit/jet/v6/loaders/httpfs"
	"github.com/CloudyKit/jet/v6/loaders/multi"
	"verifh/internal/fw"
)

// C19: bundled loaders honour the Loader contract.

//go:embed embedtree
var c19embed embed.FS

var c19names = []string{"a", "b", "c.jet", "x.html.jet", "d", "e.jet", "é.jet", "with space", "v1..2", "welcome..en.jet", "..hidden", "...jet", "a.b..c"} // (two dots inside a name are no dot segment)

func c19canon(r *rand.Rand) string {
	n := 1 + r.Intn(3)
	parts := make([]string, n)
	for i := range parts {
		parts[i] = c19names[r.Intn(len(c19names))]
	}
	return "/" + strings.Join(parts, "/")
}

// c19spell returns a spelling that path.Join("/", s) maps back to canon.
func c19spell(r *rand.Rand, canon string) string {
	parts := strings.Split(strings.TrimPrefix(canon, "/"), "/")
	var b strings.Builder
	switch r.Intn(4) {
	case 0:
		b.WriteString("/")
	case 1:
		b.WriteString("//")
	case 2:
		b.WriteString("./")
	case 3:
		if r.Intn(2) == 0 {
			b.WriteString("../")
		}
	}
	for i, p := range parts {
		if i > 0 {
			b.WriteString("/")
		}
		switch r.Intn(8) {
		case 0:
			b.WriteString("./")
		case 1:
			b.WriteString("/")
		case 2:
			b.WriteString("zz/../")
		case 3:
			b.WriteString("zz/./yy/../../")
		}
		b.WriteString(p)
	}
	switch r.Intn(6) {
	case 0:
		b.WriteString("/")
	case 1:
		b.WriteString("/.")
	case 2:
		b.WriteString("//")
	}
	s := b.String()
	if path.Join("/", s) != canon {
		return canon
	}
	return s
}

func c19read(l jet.Loader, p string) (string, error) {
	rc, err := l.Open(p)
	if err != nil {
		return "", err
	}
	defer rc.Close()
	// a second handle on the same entry, opened while the first one is unread: each has a cursor of its own, and with no
	// edit in between both read the same content, in whatever order they are read
	rc2, err := l.Open(p)
	if err != nil {
		return "", fmt.Errorf("a second Open while the first handle is open failed: %v", err)
	}
	defer rc2.Close()
	var head [3]byte
	n, _ := io.ReadFull(rc, head[:])
	b2, err := io.ReadAll(rc2)
	if err != nil {
		return string(b2), err
	}
	rest, err := io.ReadAll(rc)
	first := string(head[:n]) + string(rest)
	if err == nil && first != string(b2) {
		return first, fmt.Errorf("two handles opened on one entry read %q and %q", first, b2)
	}
	return first, err
}

type c19op struct {
	Op      string `json:"op"`
	Path    string `json:"path"`
	Content string `json:"content,omitempty"`
	Loader  int    `json:"loader,omitempty"`
}

func c19n(tier string) int {
	if tier == "thorough" {
		return 200000
	}
	return 4000
}

func c19run(c *fw.Ctx, idx int) {
	r := c.Rand(idx, "c19")
	kind := []string{"inmem", "inmem", "os", "httpfs", "embedfs", "multi", "multi", "multidir"}[idx%8]
	var hist []c19op
	c.Begin(idx, map[string]interface{}{"loader": kind})
	defer c.End()
	viol := func(sig string, detail string) {
		c.Journal(map[string]interface{}{"loader": kind, "history": hist})
		c.Violation("c19:"+kind+":"+sig, "", detail)
	}
	c.Count("histories_"+kind, 1)
	switch kind {
	case "inmem":
		l := jet.NewInMemLoader()
		model := map[string]string{}
		canons := []string{c19canon(r), c19canon(r), c19canon(r), c19canon(r)}
		n := 10 + r.Intn(40)
		spellings := 0
		for i := 0; i < n; i++ {
			cn := canons[r.Intn(len(canons))]
			sp := c19spell(r, cn)
			if sp != cn {
				spellings++
			}
			switch r.Intn(5) {
			case 0, 1:
				content := fmt.Sprintf("v%d-%d<&>", idx, i)
				if r.Intn(6) == 0 {
					content = "" // an empty template is an entry like any other
				}
				hist = append(hist, c19op{Op: "Set", Path: sp, Content: content})
				l.Set(sp, content)
				model[cn] = content
			case 2:
				hist = append(hist, c19op{Op: "Delete", Path: sp})
				l.Delete(sp)
				delete(model, cn)
			default:
				hist = append(hist, c19op{Op: "Query", Path: sp})
				want, has := model[cn]
				got := l.Exists(sp)
				c.Count("queries", 1)
				if got != has {
					viol("exists-disagrees-with-model", fmt.Sprintf("Exists(%q)=%v, model (key %q) says %v", sp, got, cn, has))
					return
				}
				if got {
					s, err := c19read(l, sp)
					if err != nil || s != want {
						viol("open-content", fmt.Sprintf("Open(%q) = %q, %v; stored %q", sp, s, err, want))
						return
					}
				} else if _, err := l.Open(sp); err == nil {
					c.Count("open_succeeds_although_exists_false", 1)
				}
			}
		}
		if spellings > 3 {
			c.Distinct(fmt.Sprintf("inmem|%d|%d", n, spellings))
		}
	case "os", "httpfs":
		root, err := os.MkdirTemp(os.Getenv("VCHECK_TMP"), "c19-")
		if err != nil {
			c.Count("tempdir_failed", 1)
			return
		}
		defer os.RemoveAll(root)
		// the root may be reached through a symbolic link that is re-pointed later (a release swap): the loader serves
		// whatever is below the path it was given, at the time it is asked
		swapLink := ""
		if idx%16 < 8 {
			holder := root
			os.Mkdir(filepath.Join(holder, "release-a"), 0755)
			swapLink = filepath.Join(holder, "current")
			if os.Symlink(filepath.Join(holder, "release-a"), swapLink) == nil {
				root = swapLink
				hist = append(hist, c19op{Op: "RootIsSymlink", Path: "current -> release-a"})
			} else {
				swapLink = ""
			}
		}
		var l jet.Loader = jet.NewOSFileSystemLoader(root)
		if kind == "os" && idx%32 == 10 && swapLink == "" {
			// the root may be spelt relative to the current directory, the current directory itself included
			if wd, err := os.Getwd(); err == nil && os.Chdir(root) == nil {
				defer os.Chdir(wd)
				spell := []string{".", "./", "./.", "sub/.."}[(idx/32)%4] // not "": filepath.Join("", "/x") is "/x", the file-system root
				l = jet.NewOSFileSystemLoader(spell)
				hist = append(hist, c19op{Op: "Chdir(root)+NewOSFileSystemLoader(" + fmt.Sprintf("%q", spell) + ")"})
				c.Count("os_roots_spelt_as_current_directory", 1)
			}
		}
		if kind == "httpfs" {
			l, _ = httpfs.NewLoader(http.Dir(root))
			if idx%32 == 11 && swapLink == "" {
				// http.Dir("") is the current directory (documented by net/http)
				if wd, err := os.Getwd(); err == nil && os.Chdir(root) == nil {
					defer os.Chdir(wd)
					l, _ = httpfs.NewLoader(http.Dir(""))
					hist = append(hist, c19op{Op: "Chdir(root)+http.Dir(\"\")"})
					c.Count("http_dir_empty_string_roots", 1)
				}
			}
		}
		files := map[string]string{}
		dirs := map[string]bool{"/": true}
		universe := map[string]bool{}
		mk := func(p, content string) {
			full := filepath.Join(root, filepath.FromSlash(p))
			os.MkdirAll(filepath.Dir(full), 0755)
			for d := path.Dir(p); d != "/"; d = path.Dir(d) {
				dirs[d] = true
				universe[d] = true
			}
			if os.WriteFile(full, []byte(content), 0644) == nil {
				files[p] = content
			}
			universe[p] = true
		}
		ascii := func() string {
			for {
				p := c19canon(r)
				if !dirs[p] {
					ok := true
					for d := path.Dir(p); d != "/"; d = path.Dir(d) {
						if _, isFile := files[d]; isFile {
							ok = false
						}
					}
					if ok {
						return p
					}
				}
			}
		}
		for i := 3 + r.Intn(6); i > 0; i-- {
			mk(ascii(), fmt.Sprintf("f%d-%d", idx, i))
		}
		// symbolic links below the root: one to a directory and one to nothing are no templates; one to a regular file
		// may be reported or not, but if it is, Open yields the file's content
		links := map[string]string{}
		if idx%3 == 0 {
			var aFile, aDir string
			for p := range files {
				aFile = p
				break
			}
			for d := range dirs {
				if d != "/" {
					aDir = d
					break
				}
			}
			ln := func(name, target string) {
				if target == "" {
					return
				}
				if os.Symlink(filepath.Join(root, filepath.FromSlash(target)), filepath.Join(root, name)) == nil {
					links["/"+name] = target
					hist = append(hist, c19op{Op: "Symlink", Path: "/" + name, Content: "-> " + target})
				}
			}
			ln("zz-link-to-file", aFile)
			ln("zz-link-to-dir", aDir)
			ln("zz-dangling-link", "/no/such/target")
		}
		checkLinks := func() bool {
			for name, target := range links {
				c.Count("symlink_queries", 1)
				got := l.Exists(name)
				content, isFile := files[target]
				switch {
				case got && !isFile:
					what := "nothing"
					if dirs[target] {
						what = "a directory"
					}
					viol("exists-wrong", fmt.Sprintf("Exists(%q)=true but it is a symbolic link to %s", name, what))
					return false
				case got:
					if s, err := c19read(l, name); err != nil || s != content {
						viol("open-content", fmt.Sprintf("Open(%q) = %q, %v; the link points to a file holding %q", name, s, err, content))
						return false
					}
				}
			}
			return true
		}
		if !checkLinks() {
			return
		}
		check := func() bool {
			var all []string
			for p := range universe {
				all = append(all, p)
			}
			all = append(all, "/missing.jet", "/a/missing", "/")
			sort.Strings(all)
			for _, p := range all {
				want, isFile := files[p]
				hist = append(hist, c19op{Op: "Query", Path: p})
				c.Count("queries", 1)
				got := l.Exists(p)
				if got != isFile {
					what := "missing"
					if dirs[p] {
						what = "a directory"
					}
					if isFile {
						what = "a regular file"
					}
					viol("exists-wrong", fmt.Sprintf("Exists(%q)=%v but the path is %s", p, got, what))
					return false
				}
				if got {
					s, err := c19read(l, p)
					if err != nil || s != want {
						viol("open-content", fmt.Sprintf("Open(%q) = %q, %v; file holds %q", p, s, err, want))
						return false
					}
				}
			}
			return true
		}
		if !check() {
			return
		}
		for step := 2 + r.Intn(4); step > 0; step-- {
			switch r.Intn(3) {
			case 0:
				p := ascii()
				hist = append(hist, c19op{Op: "WriteFile", Path: p})
				mk(p, fmt.Sprintf("e%d-%d", idx, step))
			case 1:
				for p := range files {
					hist = append(hist, c19op{Op: "Remove", Path: p})
					os.Remove(filepath.Join(root, filepath.FromSlash(p)))
					delete(files, p)
					break
				}
			case 2:
				for p := range files {
					hist = append(hist, c19op{Op: "Overwrite", Path: p})
					mk(p, fmt.Sprintf("o%d-%d", idx, step))
					break
				}
			}
			if !check() {
				return
			}
		}
		if swapLink != "" {
			// re-point the link to a tree with other files (some names shared, other contents)
			holder := filepath.Dir(swapLink)
			relB := filepath.Join(holder, "release-b")
			os.Mkdir(relB, 0755)
			newFiles := map[string]string{}
			k := 0
			for p := range files {
				if k%2 == 0 {
					newFiles[p] = fmt.Sprintf("swapped-%d-%d", idx, k)
				}
				k++
			}
			newFiles["/only-in-b.jet"] = fmt.Sprintf("b-%d", idx)
			os.Remove(swapLink)
			if os.Symlink(relB, swapLink) == nil {
				hist = append(hist, c19op{Op: "SwapRootLink", Path: "current -> release-b"})
				oldFiles := files
				files = map[string]string{}
				dirs = map[string]bool{"/": true}
				for p := range oldFiles {
					universe[p] = true
				}
				for p, content := range newFiles {
					mk(p, content)
				}
				c.Count("root_link_swaps", 1)
				if !check() {
					return
				}
			}
		}
		c.Distinct(fmt.Sprintf("%s|%d files|%d dirs", kind, len(files), len(dirs)))
	case "embedfs":
		base := "embedtree"
		if idx%2 == 1 {
			base = "embedtree/sub"
		}
		// the root may be spelt in any way that names that directory
		rootSpelling := base
		switch (idx / 2) % 6 {
		case 1:
			rootSpelling = base + "/"
		case 2:
			rootSpelling = "./" + base
		case 3:
			rootSpelling = base + "/deep/.."
		case 4:
			rootSpelling = "embedtree/../" + base
		case 5:
			rootSpelling = base + "//"
		}
		hist = append(hist, c19op{Op: "NewLoader", Path: rootSpelling})
		l := embedfs.NewLoader(rootSpelling, c19embed)
		n := 0
		fs.WalkDir(c19embed, base, func(p string, d fs.DirEntry, err error) error {
			if err != nil {
				return nil
			}
			rel := "/" + strings.TrimPrefix(strings.TrimPrefix(p, base), "/")
			rel = path.Clean(rel)
			got := l.Exists(rel)
			c.Count("queries", 1)
			n++
			hist = append(hist, c19op{Op: "Query", Path: rel})
			if got != !d.IsDir() {
				viol("exists-wrong", fmt.Sprintf("Exists(%q)=%v, isDir=%v", rel, got, d.IsDir()))
				return nil
			}
			if got {
				want, _ := c19embed.ReadFile(p)
				s, err := c19read(l, rel)
				if err != nil || s != string(want) {
					viol("open-content", fmt.Sprintf("Open(%q) = %q, %v; embedded %q", rel, s, err, want))
				}
			}
			return nil
		})
		for _, p := range []string{"/missing.jet", "/sub/missing", "/deep/none.jet"} {
			if l.Exists(p) {
				_, err := fs.Stat(c19embed, path.Join(base, p))
				if err != nil {
					viol("exists-wrong", fmt.Sprintf("Exists(%q)=true for a missing entry", p))
				}
			}
		}
		c.Distinct(fmt.Sprintf("embedfs|%s|%d", rootSpelling, n))
	case "multidir":
		// a file-system loader holding a DIRECTORY under the name another loader holds a template
		root, err := os.MkdirTemp(os.Getenv("VCHECK_TMP"), "c19m-")
		if err != nil {
			c.Count("tempdir_failed", 1)
			return
		}
		defer os.RemoveAll(root)
		cn := c19canon(r)
		os.MkdirAll(filepath.Join(root, filepath.FromSlash(cn)), 0755)
		mem := jet.NewInMemLoader()
		content := fmt.Sprintf("MEM-%d", idx)
		mem.Set(cn, content)
		var fsl jet.Loader = jet.NewOSFileSystemLoader(root)
		if r.Intn(2) == 0 {
			fsl, _ = httpfs.NewLoader(http.Dir(root))
		}
		ml := multi.NewLoader(fsl, mem)
		hist = append(hist, c19op{Op: "Mkdir(loader0)+Set(loader1)", Path: cn, Content: content}, c19op{Op: "Query", Path: cn})
		c.Count("queries", 1)
		if !ml.Exists(cn) {
			viol("exists-wrong", fmt.Sprintf("Exists(%q)=false although the second loader holds it", cn))
			return
		}
		if s, err := c19read(ml, cn); err != nil || s != content {
			viol("answers-from-wrong-loader", fmt.Sprintf("Open(%q) = %q, %v; the only loader having the path holds %q (the first one has a directory there)", cn, s, err, content))
			return
		}
		if ml.Exists(path.Dir(cn)) && path.Dir(cn) != "/" {
			viol("exists-wrong", fmt.Sprintf("Exists(%q)=true for a directory", path.Dir(cn)))
		}
		c.Distinct("multidir|" + fmt.Sprint(strings.Count(cn, "/")))
	case "multi":
		k := 2 + r.Intn(3)
		var mems []*jet.InMemLoader
		var ls []jet.Loader
		for i := 0; i < k; i++ {
			m := jet.NewInMemLoader()
			mems = append(mems, m)
			ls = append(ls, m)
		}
		active := 1 + r.Intn(k)
		// the stack: loaders in order; one member may itself be a multi loader (edited after it became a member)
		outerList := []int{}
		for i := 0; i < active; i++ {
			outerList = append(outerList, i)
		}
		var inner *multi.Multi
		var innerList []int
		members := append([]jet.Loader{}, ls[:active]...)
		if idx%2 == 0 && active < k {
			inner = multi.NewLoader(ls[active])
			innerList = []int{active}
			at := r.Intn(len(members) + 1)
			members = append(members[:at], append([]jet.Loader{inner}, members[at:]...)...)
			outerList = append(outerList[:at], append([]int{-1}, outerList[at:]...)...)
			active++
			hist = append(hist, c19op{Op: fmt.Sprintf("nested multi loader as member %d of the outer one", at)})
			c.Count("nested_multi_stacks", 1)
		}
		ml := multi.NewLoader(members...)
		// a sibling stack built from the very same slice, cleared and refilled later: the stack under test is unaffected
		sibling := multi.NewLoader(members...)
		order := func() []int {
			var o []int
			for _, e := range outerList {
				if e >= 0 {
					o = append(o, e)
				} else {
					o = append(o, innerList...)
				}
			}
			return o
		}
		models := make([]map[string]string, k)
		for i := range models {
			models[i] = map[string]string{}
		}
		canons := []string{c19canon(r), c19canon(r), c19canon(r)}
		overlaps := 0
		n := 10 + r.Intn(40)
		for i := 0; i < n; i++ {
			cn := canons[r.Intn(len(canons))]
			switch r.Intn(8) {
			case 0, 1, 2:
				li := r.Intn(k)
				content := fmt.Sprintf("L%d-%d-%d", li, idx, i)
				if r.Intn(8) == 0 {
					content = ""
				}
				hist = append(hist, c19op{Op: "Set", Path: cn, Content: content, Loader: li})
				mems[li].Set(cn, content)
				models[li][cn] = content
			case 3:
				li := r.Intn(k)
				hist = append(hist, c19op{Op: "Delete", Path: cn, Loader: li})
				mems[li].Delete(cn)
				delete(models[li], cn)
			case 4:
				if r.Intn(3) == 0 {
					hist = append(hist, c19op{Op: "sibling.ClearLoaders+AddLoaders", Loader: k - 1})
					sibling.ClearLoaders()
					sibling.AddLoaders(ls[k-1], ls[0])
				}
				if active < k {
					if inner != nil && r.Intn(2) == 0 {
						hist = append(hist, c19op{Op: "AddLoaders(nested)", Loader: active})
						inner.AddLoaders(ls[active])
						innerList = append(innerList, active)
					} else if r.Intn(4) == 0 {
						// a loader that is on the stack already is added once more, at the end: the stack keeps its order
						dup := outerList[0]
						if dup < 0 {
							dup = outerList[len(outerList)-1]
						}
						if dup >= 0 {
							hist = append(hist, c19op{Op: "AddLoaders(loader already on the stack)", Loader: dup})
							ml.AddLoaders(ls[dup])
							outerList = append(outerList, dup)
							c.Count("addloaders_of_a_member", 1)
						}
						active--
					} else if active+1 < k && r.Intn(2) == 0 {
						// several loaders in one call (possibly more than the stack holds so far): appended in the order given
						hist = append(hist, c19op{Op: fmt.Sprintf("AddLoaders(%d loaders at once)", k-active), Loader: active})
						ml.AddLoaders(ls[active:]...)
						for a := active; a < k; a++ {
							outerList = append(outerList, a)
						}
						active = k - 1
						c.Count("addloaders_with_several_loaders", 1)
					} else {
						hist = append(hist, c19op{Op: "AddLoaders", Loader: active})
						ml.AddLoaders(ls[active])
						outerList = append(outerList, active)
					}
					active++
				}
			default:
				first, holders := -1, 0
				for _, li := range order() {
					if _, ok := models[li][cn]; ok {
						holders++
						if first < 0 {
							first = li
						}
					}
				}
				if holders > 1 {
					overlaps++
				}
				c.Count("queries", 1)
				doExists := r.Intn(3) != 0
				if doExists {
					hist = append(hist, c19op{Op: "Exists", Path: cn})
					if got := ml.Exists(cn); got != (first >= 0) {
						viol("exists-wrong", fmt.Sprintf("Exists(%q)=%v, model: first holder %d", cn, got, first))
						return
					}
				}
				if first >= 0 && (!doExists || r.Intn(2) == 0) {
					hist = append(hist, c19op{Op: "Open", Path: cn})
					s, err := c19read(ml, cn)
					if err != nil || s != models[first][cn] {
						viol("answers-from-wrong-loader", fmt.Sprintf("Open(%q) = %q, %v; first loader having it is #%d with %q", cn, s, err, first, models[first][cn]))
						return
					}
				}
			}
		}
		if overlaps > 0 {
			c.Distinct(fmt.Sprintf("multi|%d|%d|%d", k, n, overlaps))
		}
	}
	if idx%101 < 7 {
		if len(hist) > 12 {
			hist = hist[:12]
		}
		c.Sample(map[string]interface{}{"loader": kind, "history_prefix": hist})
	}
}

func init() {
	fw.Register(&fw.Property{
		ID:        "C19",
		Technique: "history checking of the bundled loaders against small executable models (map keyed by cleaned path; the file tree itself; first-holder for multi)",
		Rule: "each case is one random history on one loader: in-memory (Set/Delete/Exists/Open with spellings using ./ ../ // leading and trailing slashes that normalise to 4 canonical paths), OS and http file-system loaders over a freshly created directory tree " +
			"(every file, every directory, missing entries and the root are queried after every edit: write, overwrite, remove), the embed loader over a static embedded tree (two roots), and multi loaders over 2-4 in-memory loaders with overlapping contents, AddLoaders mid-history and edits between Exists and Open; " +
			"oracle: Exists agrees with the model, Exists implies Open returns exactly the stored bytes, directories never exist, multi answers from the first loader holding the path; non-trivial = history used >3 non-canonical spellings / overlapping contents / a generated tree; distinct by history shape Since waves 8/9: every read opens two handles on the path and reads them interleaved; OS loaders rooted at '.', './', './.' and 'sub/..' after changing into the directory.",
		Assumptions: []string{"the harness may create temporary directories", "http.Dir and embed.FS behave as documented"},
		NCases:      c19n,
		RunCase:     c19run,
		MinDistinct: 100,
	})
}
