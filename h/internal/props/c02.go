package props

import (
	"bytes"
	"encoding/json"
	"fmt"
	"math/rand"
	"os"
	"path"
	"path/filepath"
	"reflect"
	"regexp"
	"runtime"
	"sort"
	"strconv"
	"strings"
	"sync"
	"sync/atomic"
	"time"

	"github.com/CloudyKit/jet/v6"
	"verifh/internal/fw"
	"verifh/internal/jx"
	"verifh/internal/rec"
	"verifh/internal/tgen"
)

// C02: parsing is total.

type c02case struct {
	Class    string            `json:"class"`
	Delims   string            `json:"delims"`
	Entry    string            `json:"entry"` // parse|get
	Files    map[string]string `json:"files"`
	Name     string            `json:"name"`
	Src      string            `json:"source"`
	MustErr  bool              `json:"must_error,omitempty"`
	Cyclic   bool              `json:"cyclic,omitempty"`
	OpenFail string            `json:"open_fails,omitempty"` // path whose Open fails although Exists is true
	ReadFail string            `json:"read_fails,omitempty"` // path whose reader fails after a few bytes
}

var c02tokens = []string{
	"if", "else", "end", "range", "block", "yield", "content", "include", "extends", "import", "try", "catch", "return",
	"and", "or", "not", "nil", "true", "false", "msg", "trans",
	"+", "-", "*", "/", "%", "<", "<=", ">", ">=", "==", "!=", "&&", "||", "!", "?", ":", ":=", "=", ",", ";", "|", "&",
	"(", ")", "[", "]", ".", "_", "\"", "'", "`", "\"s\"", "'c'", "`r`",
	"0", "1", "1.5", "0x1f", "1e3", "-1", ".5", "1i", "08",
	"a", "x1", ".F", "é", "日", "٣", "𝟗", "\u00a0", "😀", "\u0301", "\u2028", "\\", "#", "$", "@", "~", "^", "{", "}", "\n", "\t", "\x00", "\xff", " ",
}

func tg(d delimCfg) tgen.Delims { return tgen.Delims{L: d.L, R: d.R, CL: d.CL, CR: d.CR} }

var c02testData []string // valid corpus from /repo/testData (default delimiters)

func c02setup(c *fw.Ctx) {
	filepath.Walk("/repo/testData", func(p string, info os.FileInfo, err error) error {
		if err == nil && !info.IsDir() && info.Size() < 8192 {
			if b, e := os.ReadFile(p); e == nil {
				c02testData = append(c02testData, string(b))
			}
		}
		return nil
	})
	sort.Strings(c02testData)
}

const (
	c02pairs = 0 // class ids for index mapping
)

func c02n(tier string) int {
	np := len(c02tokens) * len(c02tokens) * 2
	if tier == "thorough" {
		return np*len(delimCfgs) + 600000
	}
	return np + 40000
}

var c02lexRunRe = regexp.MustCompile(`\(\*lexer\)\.run`)
var c02posRe = regexp.MustCompile(`template: ([^:\s]+):(\d+):`)

func c02valid(r *rand.Rand, d delimCfg) string {
	g := tgen.New(r, tg(d))
	g.NoHeaders = true
	return g.Template(2 + r.Intn(6))
}

func c02mutate(r *rand.Rand, s string, d delimCfg) string {
	dict := append([]string{d.L, d.R, d.CL, d.CR, d.L + "- ", " -" + d.R, d.L + "end" + d.R, d.L + "else" + d.R}, c02tokens...)
	n := 1 + r.Intn(3)
	for i := 0; i < n; i++ {
		if len(s) == 0 {
			s = dict[r.Intn(len(dict))]
			continue
		}
		p := r.Intn(len(s) + 1)
		switch r.Intn(5) {
		case 0: // insert token
			s = s[:p] + dict[r.Intn(len(dict))] + s[p:]
		case 1: // delete span
			q := p + r.Intn(6)
			if q > len(s) {
				q = len(s)
			}
			s = s[:p] + s[q:]
		case 2: // duplicate span
			q := p + r.Intn(12)
			if q > len(s) {
				q = len(s)
			}
			s = s[:q] + s[p:q] + s[q:]
		case 3: // replace a byte
			if p < len(s) {
				s = s[:p] + string([]byte{byte(r.Intn(256))}) + s[p+1:]
			}
		case 4: // swap two spans
			q := r.Intn(len(s) + 1)
			if p > q {
				p, q = q, p
			}
			m := p + (q-p)/2
			s = s[:p] + s[m:q] + s[p:m] + s[q:]
		}
	}
	return s
}

func c02noise(r *rand.Rand, d delimCfg) string {
	var b bytes.Buffer
	n := r.Intn(60)
	for i := 0; i < n; i++ {
		switch r.Intn(8) {
		case 0:
			b.WriteString(d.L)
		case 1:
			b.WriteString(d.R)
		case 2:
			b.WriteString(d.CL)
		case 3:
			b.WriteString(d.CR)
		case 4:
			b.WriteString(c02tokens[r.Intn(len(c02tokens))])
		case 5:
			b.WriteByte(byte(r.Intn(256)))
		case 6:
			b.WriteString(strings.Repeat(c02tokens[r.Intn(len(c02tokens))], 1+r.Intn(40)))
		case 7:
			b.WriteByte(' ')
		}
	}
	return b.String()
}

// c02build derives the case for an index.
func c02build(c *fw.Ctx, idx int) c02case {
	r := c.Rand(idx, "c02")
	np := len(c02tokens) * len(c02tokens) * 2
	d := delimCfgs[0]
	pairSpace := np
	if c.Tier == "thorough" {
		pairSpace = np * len(delimCfgs)
	}
	if idx < pairSpace {
		// every ordered pair of dictionary tokens inside an action, tight and spaced
		k := idx % np
		d = delimCfgs[idx/np]
		a, b := c02tokens[k/2%len(c02tokens)], c02tokens[k/2/len(c02tokens)]
		sep := ""
		if k%2 == 1 {
			sep = " "
		}
		src := "x" + d.L + " " + a + sep + b + " " + d.R + "y"
		if r.Intn(3) == 0 {
			src = d.L + a + sep + b + d.R
		}
		return c02case{Class: "token-pair", Delims: d.Name, Entry: "parse", Name: "/t.jet", Src: src}
	}
	if idx%97 == 5 {
		// number literals the lexer lets through: whatever the parser makes of them, the template it returns without an
		// error can be executed (checked in c02run)
		lit := []string{"0x", "0X", "0x1.8", "0xFFFFFFFFFFFFFFFFFFFF", "0x1p-2", "1e", "1e+", "0b12", "0o9", "1_000", "0x_1", "1.2.3", "00.5", "1i", "0x1i", "9223372036854775808", "1e400", ".e1"}[r.Intn(18)]
		src := "n" + d.L + " " + lit + " " + d.R + "\n" + d.L + " 1 + " + lit + " " + d.R
		return c02case{Class: "number-literal", Delims: d.Name, Entry: []string{"parse", "get"}[r.Intn(2)], Name: "/t.jet", Src: src, Files: map[string]string{"/t.jet": src}}
	}
	d = delimCfgs[r.Intn(len(delimCfgs))]
	cs := c02case{Delims: d.Name, Name: "/t.jet", Entry: []string{"parse", "get"}[r.Intn(2)]}
	base := c02valid(r, d)
	if d.Name == "default" && len(c02testData) > 0 && r.Intn(3) == 0 {
		base = c02testData[r.Intn(len(c02testData))]
	}
	switch k := r.Intn(20); {
	case k < 2:
		cs.Class, cs.Src = "valid", base
	case k < 6:
		cs.Class = "truncated"
		if len(base) > 0 {
			cs.Src = base[:r.Intn(len(base))]
		}
	case k < 11:
		cs.Class, cs.Src = "mutated", c02mutate(r, base, d)
	case k < 13:
		cs.Class, cs.Src = "noise", c02noise(r, d)
	case k < 17:
		// structural mistakes: a valid template plus one break whose invalidity is certain
		cs.MustErr = true
		valid := c02valid(r, d)
		switch m := r.Intn(11); m {
		case 10:
			// a second {{else}} is no {{end}}: two openers, two elses of the inner one, a single end
			cs.Class = "struct-second-else-instead-of-end"
			inner := []string{"if y", "range y"}[r.Intn(2)]
			outer := []string{"if x", "range x", "block q()", "try"}[r.Intn(4)]
			cs.Src = valid + d.L + outer + d.R + d.L + inner + d.R + "a" + d.L + "else" + d.R + "b" + d.L + "else" + d.R + "c" + d.L + "end" + d.R + c02valid(r, d)
		case 0:
			cs.Class = "struct-unterminated-action"
			cs.Src = valid + d.L + " x "
			if d.R != "}}" && r.Intn(2) == 0 {
				// what closes an action under the default delimiters (with or without trim marker) closes nothing here
				cs.Class = "struct-unterminated-action-foreign-closer"
				cs.Src = valid + d.L + " 1" + []string{" -}}", " }}", "}}", " -}} tail", " - }}"}[r.Intn(5)]
				if strings.Contains(cs.Src[len(valid)+len(d.L):], d.R) {
					cs.Class, cs.Src = "struct-unterminated-action", valid+d.L+" x "
				}
			}
		case 1:
			cs.Class = "struct-unterminated-comment"
			cs.Src = valid + d.CL + " never closed"
		case 2:
			cs.Class = "struct-unterminated-string"
			cs.Src = valid + d.L + ` "abc ` + d.R
			if strings.Contains(d.R+d.L, `"`) {
				cs.Src = valid + d.L + ` "abc `
			}
		case 3:
			cs.Class = "struct-missing-end"
			open := []string{"if x", "range x", "block b()", "try", "yield b() content", "if x" + d.R + "a" + d.L + "else"}[r.Intn(6)]
			cs.Src = valid + d.L + open + d.R + c02valid(r, d)
		case 4:
			cs.Class = "struct-surplus-end"
			cs.Src = valid + d.L + "end" + d.R
			if r.Intn(2) == 0 {
				cs.Src = valid + d.L + "if x" + d.R + "a" + d.L + "end" + d.R + d.L + " end " + d.R + c02valid(r, d)
			}
		case 5:
			cs.Class = "struct-late-extends"
			cs.Src = "content" + valid + d.L + `extends "/base.jet"` + d.R
		case 6:
			cs.Class = "struct-late-import"
			cs.Src = d.L + " 1 " + d.R + valid + d.L + `import "/lib.jet"` + d.R
		case 7: // extends/import after other content, following a legitimate header
			cs.Class = "struct-late-import-after-extends"
			cs.Src = d.L + `extends "/base.jet"` + d.R + " hello " + valid + d.L + `import "/lib.jet"` + d.R
		case 8:
			cs.Class = "struct-late-extends-after-import"
			cs.Src = d.L + `import "/lib.jet"` + d.R + "text" + d.L + `extends "/base.jet"` + d.R + valid
		case 9:
			cs.Class = "struct-late-import-after-import"
			cs.Src = d.L + `import "/lib.jet"` + d.R + d.L + ` "x" ` + d.R + d.L + `import "/lib.jet"` + d.R
		}
	default:
		// reference sets
		cs.Class = "refs"
		cs.Entry = "get"
		hdr := func(kind, name string) string { return d.L + kind + ` "` + name + `"` + d.R }
		switch m := r.Intn(12); m {
		case 9: // loader faults: Exists says yes, Open fails / the reader fails: an error, never a crash, no goroutine left
			cs.Src = base
			cs.OpenFail = "/t.jet"
			cs.MustErr = true
			cs.Class = "refs-open-fails"
		case 10:
			cs.Src = hdr([]string{"extends", "import"}[r.Intn(2)], "/base.jet") + base
			cs.OpenFail = "/base.jet"
			cs.MustErr = true
			cs.Class = "refs-dependency-open-fails"
		case 11:
			cs.Src = hdr([]string{"extends", "import"}[r.Intn(2)], "/lib.jet") + base
			if r.Intn(2) == 0 {
				cs.ReadFail = "/lib.jet"
			} else {
				cs.ReadFail = "/t.jet"
			}
			cs.MustErr = true
			cs.Class = "refs-read-fails"
		case 0:
			cs.Src = hdr("extends", "/base.jet") + base
		case 1:
			cs.Src = hdr("extends", "/missing.jet") + base
			cs.MustErr = true
			cs.Class = "refs-missing"
		case 2:
			cs.Src = hdr("import", "/broken.jet") + base
			cs.MustErr = true
			cs.Class = "refs-broken"
		case 3:
			cs.Src = hdr("extends", "/mid.jet") + base // mid extends broken
			cs.MustErr = true
			cs.Class = "refs-transitively-broken"
		case 4:
			cs.Src = hdr("import", "/lib.jet") + hdr("import", "sub/rel.jet") + base
		case 5:
			cs.Src = hdr("extends", "/base.jet") + hdr("extends", "/base.jet") + base
			cs.MustErr = true
			cs.Class = "refs-double-extends"
		case 6:
			cs.Src = hdr("import", "/lib.jet") + hdr("extends", "/base.jet") + base
			cs.MustErr = true
			cs.Class = "refs-extends-after-import"
		case 7:
			cs.Src = hdr("extends", "/t.jet") + base
			cs.Cyclic = true
			cs.Class = "refs-self-cycle"
		case 8:
			cs.Src = hdr([]string{"extends", "import"}[r.Intn(2)], "/cyc.jet") + base
			cs.Cyclic = true
			cs.Class = "refs-mutual-cycle"
		}
	}
	if len(cs.Src) > 8192 {
		cs.Src = cs.Src[:8192]
	}
	cs.Files = map[string]string{
		"/t.jet":       cs.Src,
		"/base.jet":    "B" + d.L + "block main()" + d.R + "bm" + d.L + "end" + d.R,
		"/lib.jet":     d.L + "block lb()" + d.R + "l" + d.L + "end" + d.R,
		"/sub/rel.jet": d.L + `import "../lib.jet"` + d.R,
		"/broken.jet":  "x" + d.L + "if" + d.R,
		"/mid.jet":     d.L + `extends "/broken.jet"` + d.R + "m",
		"/inc.jet":     "i",
	}
	if cs.Class == "refs-mutual-cycle" {
		cs.Files["/cyc.jet"] = d.L + `extends "/t.jet"` + d.R
	}
	if cs.MustErr && strings.HasPrefix(cs.Class, "struct-") && r.Intn(3) == 0 {
		// the broken source is the first candidate for the name asked for ("/t" + ""), and a loadable file sits under a later
		// candidate ("/t.jet"): the mistake in the file that was found is reported, not papered over by the sibling
		cs.Class += "-beside-loadable-candidate"
		cs.Entry, cs.Name = "get", "/t"
		cs.Files["/t"] = cs.Src
		cs.Files["/t.jet"] = "loadable sibling"
	}
	return cs
}

func c02lines(s string) int { return strings.Count(s, "\n") + 1 }

type c02outcome struct {
	t   *jet.Template
	err error
	pan interface{}
}

// c02valuelessNumber finds a number literal node of the parsed tree that carries no value of any numeric kind.
func c02valuelessNumber(v reflect.Value, depth int) string {
	if depth > 64 {
		return ""
	}
	switch v.Kind() {
	case reflect.Interface, reflect.Ptr:
		if v.IsNil() {
			return ""
		}
		if n, ok := v.Interface().(*jet.NumberNode); ok {
			if !n.IsInt && !n.IsUint && !n.IsFloat && !n.IsComplex {
				return n.Text
			}
			return ""
		}
		return c02valuelessNumber(v.Elem(), depth+1)
	case reflect.Struct:
		if v.Type().Name() == "Template" || v.Type().Name() == "Set" {
			return ""
		}
		for i := 0; i < v.NumField(); i++ {
			if f := v.Type().Field(i); f.PkgPath != "" && !f.Anonymous {
				continue
			}
			if s := c02valuelessNumber(v.Field(i), depth+1); s != "" {
				return s
			}
		}
	case reflect.Slice:
		for i := 0; i < v.Len(); i++ {
			if s := c02valuelessNumber(v.Index(i), depth+1); s != "" {
				return s
			}
		}
	}
	return ""
}

// c02storm: lookups never hang while other goroutines edit other entries of the same in-memory loader.
func c02storm(c *fw.Ctx, idx int) {
	c.Begin(idx, map[string]interface{}{"class": "lookups-during-loader-edits", "readers": 6, "editors": 3, "iterations": 150})
	defer c.End()
	loader := jet.NewInMemLoader()
	loader.Set("/t.jet", `{{extends "/base.jet"}}{{block b()}}x{{end}}`)
	loader.Set("/base.jet", `B{{yield b()}}`)
	set := jet.NewSet(loader, jet.InDevelopmentMode())
	var wg sync.WaitGroup
	var bad atomic.Value
	for g := 0; g < 9; g++ {
		wg.Add(1)
		go func(g int) {
			defer wg.Done()
			for i := 0; i < 150; i++ {
				if g >= 6 {
					p := fmt.Sprintf("/edit/e%d.jet", (g+i)%4)
					if i%2 == 0 {
						loader.Set(p, "e")
					} else {
						loader.Delete(p)
					}
					continue
				}
				if t, err := set.GetTemplate("/t.jet"); err != nil || t == nil {
					bad.Store(fmt.Sprintf("GetTemplate(/t.jet) = %v, %v while unrelated entries were edited", t != nil, err))
				}
			}
		}(g)
	}
	done := make(chan struct{})
	go func() { wg.Wait(); close(done) }()
	select {
	case <-done:
	case <-time.After(8 * time.Second):
		c.Violation("c02:hang:lookups-during-loader-edits", "", "9 goroutines (6 looking /t.jet up on a development-mode Set, 3 setting and deleting other entries of its in-memory loader) did not finish within 8s (normal: <50ms)")
		c.AbortWorker()
	}
	c.Count("parses", 900)
	c.Count("class_lookups-during-loader-edits", 1)
	if b := bad.Load(); b != nil {
		c.Violation("c02:lookup-failed-during-loader-edits", "", b.(string))
	}
}

func c02run(c *fw.Ctx, idx int) {
	if idx%211 == 3 {
		c02storm(c, idx)
		return
	}
	cs := c02build(c, idx)
	if cs.Cyclic && (c.Tier == "quick" && idx%89 != 0 || c.Tier == "thorough" && idx%97 != 0) {
		// every cyclic case kills its worker (known finding K1): sample them in the quick tier
		cs.Class, cs.Cyclic = "refs", false
		cs.Src = "nocycle"
		cs.Files["/t.jet"] = cs.Src
		delete(cs.Files, "/cyc.jet")
	}
	c.Begin(idx, cs)
	defer c.End()
	d := delimCfgs[0]
	for _, x := range delimCfgs {
		if x.Name == cs.Delims {
			d = x
		}
	}
	loader := jet.NewInMemLoader()
	for k, v := range cs.Files {
		loader.Set(k, v)
	}
	if idx%23 == 0 {
		// an edit of the loader that finds nothing to do leaves nothing behind: the lookups below return as always
		loader.Delete("/never/stored.jet")
		c.Count("lookups_after_delete_of_absent_entry", 1)
	}
	var ld jet.Loader = loader
	if cs.OpenFail != "" || cs.ReadFail != "" {
		rl := rec.NewLoader(loader)
		if cs.OpenFail != "" {
			rl.OpenErr[cs.OpenFail] = true
		}
		if cs.ReadFail != "" {
			rl.ReadErrAfter[cs.ReadFail] = 3
		}
		ld = rl
	}
	set := jet.NewSet(ld, d.opts()...)
	baseline := runtime.NumGoroutine()
	rounds := 1
	if cs.Entry == "get" {
		rounds = 2 // the second lookup must not turn a failure into a "success" (or the reverse)
	}
	var first c02outcome
	for round := 0; round < rounds; round++ {
		ch := make(chan c02outcome, 1)
		go func() {
			var o c02outcome
			defer func() {
				if p := recover(); p != nil {
					o.pan = p
				}
				ch <- o
			}()
			if cs.Entry == "get" {
				o.t, o.err = set.GetTemplate(cs.Name)
			} else {
				o.t, o.err = set.Parse(cs.Name, cs.Src)
			}
		}()
		var o c02outcome
		select {
		case o = <-ch:
		case <-time.After(8 * time.Second):
			c.Violation("c02:hang:"+cs.Class, "", "parse did not return within 8s (normal: <1ms)")
			c.AbortWorker()
		}
		c.Count("parses", 1)
		sig := func(kind string) string { return "c02:" + kind + ":" + cs.Class + ":" + cs.Entry }
		switch {
		case o.pan != nil:
			c.Violation(sig("panic"), "", fmt.Sprintf("panic escaped into the caller: %v", o.pan))
		case o.err == nil && (o.t == nil || o.t.Root == nil):
			c.Violation(sig("nil-template-nil-error"), "", fmt.Sprintf("round %d: nil error but template=%v root=nil", round, o.t != nil))
		case o.err == nil && cs.MustErr:
			c.Violation(sig("accepted-structural-mistake"), "", "no error reported for a structurally invalid source")
		}
		if o.err == nil && o.pan == nil && o.t != nil && cs.Class == "number-literal" {
			// usable: executing it evaluates the literals (an error about the operation is fine, one about the tree is not)
			res := jx.Exec(o.t, nil, nil)
			c.Count("accepted_number_literals_executed", 1)
			if bad := c02valuelessNumber(reflect.ValueOf(o.t.Root), 0); res.Panic != nil || bad != "" {
				c.Violation(sig("accepted-template-is-unusable"), "", fmt.Sprintf("%q was accepted without an error, but the tree holds the number literal %q with no value of any kind (int, uint, float, complex); executing it: %s", cs.Src, bad, res))
			}
		}
		if o.err != nil {
			c.Count("errors", 1)
			msg := o.err.Error()
			for _, m := range c02posRe.FindAllStringSubmatch(msg, -1) {
				src, ok := cs.Files[m[1]]
				if m[1] == cs.Name {
					src, ok = cs.Src, true
				}
				line, _ := strconv.Atoi(m[2])
				if !ok {
					c.Violation(sig("error-names-unknown-template"), "", msg)
				} else if line < 1 || line > c02lines(src) {
					c.Violation(sig("error-line-outside-source"), "", fmt.Sprintf("line %d of %d: %s", line, c02lines(src), msg))
				}
				c.Count("positions_checked", 1)
			}
		} else {
			c.Count("accepted", 1)
		}
		if cs.Class == "valid" && round == 0 {
			if o.err == nil {
				c.Count("valid_generated_accepted", 1)
			} else {
				c.Count("valid_generated_rejected", 1)
				if c.Verbose || os.Getenv("C02_SHOW_REJECTED") != "" {
					fmt.Fprintf(os.Stderr, "REJECTED %q: %v\n", cs.Src, o.err)
				}
			}
		}
		if round == 0 {
			first = o
		} else if (first.err == nil) != (o.err == nil) && first.pan == nil && o.pan == nil {
			c.Violation(sig("second-lookup-differs"), "", fmt.Sprintf("first lookup err=%v, second lookup err=%v", first.err, o.err))
		}
		// goroutine census: nothing may keep running (in particular the lexer goroutine)
		if runtime.NumGoroutine() > baseline {
			leaked := true
			var dump string
			for i := 0; i < 40 && leaked; i++ {
				if runtime.NumGoroutine() <= baseline {
					leaked = false
					break
				}
				time.Sleep(time.Duration(i+1) * 250 * time.Microsecond)
				if i%8 == 7 {
					buf := make([]byte, 1<<16)
					dump = string(buf[:runtime.Stack(buf, true)])
					if !c02lexRunRe.MatchString(dump) && runtime.NumGoroutine() <= baseline {
						leaked = false
					}
				}
			}
			c.Count("census_slow_path", 1)
			if leaked {
				buf := make([]byte, 1<<16)
				dump = string(buf[:runtime.Stack(buf, true)])
				if c02lexRunRe.MatchString(dump) || runtime.NumGoroutine() > baseline {
					c.Violation(sig("goroutine-leak"), "", fmt.Sprintf("%d goroutines (baseline %d) 200ms after return; lexer frame present: %v", runtime.NumGoroutine(), baseline, c02lexRunRe.MatchString(dump)))
					baseline = runtime.NumGoroutine()
				}
			}
		}
	}
	c.Count("class_"+cs.Class, 1)
	key := cs.Class + "|" + cs.Delims + "|"
	if first.err != nil {
		key += c02normErr(first.err.Error())
	} else {
		key += "ok"
	}
	if strings.Contains(cs.Src, d.L) || strings.Contains(cs.Src, d.CL) {
		c.Distinct(key)
	}
	if idx%997 == 0 {
		c.Sample(map[string]interface{}{"class": cs.Class, "delims": cs.Delims, "source": cs.Src, "error": fmt.Sprint(first.err)})
	}
}

var c02normRe = regexp.MustCompile(`'[^']*'|"[^"]*"|U\+[0-9A-F]+|\d+`)

func c02normErr(s string) string {
	s = c02normRe.ReplaceAllString(s, "#")
	if len(s) > 120 {
		s = s[:120]
	}
	return s
}

func c02classify(desc json.RawMessage, stderr string) (string, string) {
	var cs c02case
	json.Unmarshal(desc, &cs)
	// known finding K1 is identified by what the case IS (a template set whose extends/import references form a cycle),
	// not by how it was generated: a mutated or noisy source can contain {{ extends "t" }} in /t.jet as well
	if (cs.Cyclic || c02hasCycle(cs)) && (strings.Contains(stderr, "stack overflow") || strings.Contains(stderr, "goroutine stack exceeds")) {
		return "c02:crash:stack-overflow:cyclic-reference", "cyclic-extends"
	}
	kind := "crash"
	if strings.Contains(stderr, "lexer") {
		kind = "crash-in-lexer-goroutine"
	}
	return "c02:" + kind + ":" + cs.Class + ":" + firstCrashLine(stderr), ""
}

var c02refRe = regexp.MustCompile(`(?:extends|import)\s*"([^"]*)"`)

// c02hasCycle reports whether the extends/import references of the case's files (resolved like the Set does: relative to
// the referring file, default extension list) contain a cycle reachable from the requested template.
func c02hasCycle(cs c02case) bool {
	files := map[string]string{}
	for k, v := range cs.Files {
		files[k] = v
	}
	if cs.Name != "" {
		files[cs.Name] = cs.Src
	}
	resolve := func(from, name string) string {
		p := name
		if !strings.HasPrefix(p, "/") {
			p = path.Join(path.Dir(from), p)
		}
		p = path.Clean(p)
		for _, ext := range []string{"", ".jet", ".html.jet", ".jet.html"} {
			if _, ok := files[p+ext]; ok {
				return p + ext
			}
		}
		return ""
	}
	state := map[string]int{}
	var visit func(f string) bool
	visit = func(f string) bool {
		switch state[f] {
		case 1:
			return true
		case 2:
			return false
		}
		state[f] = 1
		for _, m := range c02refRe.FindAllStringSubmatch(files[f], -1) {
			if t := resolve(f, m[1]); t != "" && visit(t) {
				return true
			}
		}
		state[f] = 2
		return false
	}
	return visit(cs.Name)
}

var numRe = regexp.MustCompile(`0x[0-9a-f]+|\d+`)

func firstCrashLine(stderr string) string {
	for _, l := range strings.Split(stderr, "\n") {
		if strings.HasPrefix(l, "panic:") || strings.HasPrefix(l, "fatal error:") {
			return numRe.ReplaceAllString(l, "N")
		}
	}
	return "unknown"
}

func init() {
	fw.Register(&fw.Property{
		ID:        "C02",
		Technique: "totality monitor: panic capture, worker-death attribution, goroutine census and progress watchdog over generated/mutated sources x delimiter configurations",
		Rule: "cases: every ordered pair of a 96-token dictionary (keywords, operators, delimiters, literals, representatives of multi-byte letters/digits/spaces/marks, control bytes) inside an action (tight and spaced; x12 delimiter configurations in the thorough tier), then per case one of: valid generated template, truncation at a random offset, token/byte mutation, delimiter noise, " +
			"a valid template plus one structural break (unterminated action/comment/string, missing or surplus end, late extends/import) that must be reported, or a reference set (extends/import of existing, missing, broken, transitively broken, self- and mutually cyclic templates); " +
			"entry points Set.Parse and Set.GetTemplate (looked up twice); oracle: no panic, worker alive, (template with Root, nil error) xor error, error positions name a template of the set and a line inside it, no lexer goroutine left, return within 30s; " +
			"non-trivial = source contains an action or comment opener; distinct by (class, delimiter config, normalised outcome message) Since waves 8/9: a third of the structural-mistake cases are stored as the first extension candidate of the name asked for beside a loadable later candidate; four delimiter configurations configure only one marker of a pair; every 23rd case first deletes an entry the in-memory loader never held.",
		Assumptions:     []string{"a parse of a <=8KiB source that takes more than 30s is a hang", "goroutines still present 200ms after return are leaked"},
		NCases:          c02n,
		RunCase:         c02run,
		Setup:           c02setup,
		ClassifyCrash:   c02classify,
		HangIsViolation: true,
		// lexer goroutine <-> parser hand-off under the race detector (thorough tier only; ./check builds the race binary then)
		RaceSide: func(tier string) (int, int) {
			if tier != "thorough" {
				return 0, 0
			}
			n := len(c02tokens) * len(c02tokens) * 2 * len(delimCfgs)
			return n, n + 40000
		},
		MinDistinct: 300,
	})
}
