package props

import (
	"crypto/sha1"
	"encoding/hex"
	"fmt"
	"reflect"
	"runtime"
	"runtime/debug"
	"strings"
	"time"

	"github.com/CloudyKit/jet/v6"
	"verifh/internal/fw"
	"verifh/internal/hook"
	"verifh/internal/jx"
	"verifh/internal/prog"
	"verifh/internal/rec"
)

// C10: Execute is a pure function of its inputs: no residue from earlier executions.

type c10unit struct {
	name  string
	p     *prog.Program
	set   *jet.Set
	tmpl  *jet.Template
	extra map[string]interface{}
	hash  string
	// reference results by writer failure point (-1 = healthy writer)
	ref     map[int]c10result
	nilVars bool               // executed with a nil VarMap (functions are provided as Set globals)
	data    func() interface{} // Go data used as '.' instead of p.Data
	mkset   func() *jet.Set
	share   *c10unit // executes the parsed template of another unit (same Set) with its own variables
	// want: the result with a healthy writer is known beforehand (used instead of a reference execution where the state
	// that could leak is process-wide and would spoil the reference execution just as well)
	want *c10result
}

// c10fresh executes u on a Set built and parsed from scratch: the reference is independent of anything earlier
// executions may have left in the parsed templates of the unit's own Set.
func c10fresh(u *c10unit, failAfter int) c10result {
	if u.want != nil && failAfter < 0 {
		return *u.want
	}
	cp := *u
	cp.set = u.mkset()
	t, err, pan := jx.Get(cp.set, u.p.Main)
	if err != nil || pan != nil {
		return c10result{err: fmt.Sprint("reference Set does not parse: ", err, pan)}
	}
	cp.tmpl = t
	return c10exec(&cp, failAfter)
}

type c10embedded struct{ Field string }

var c10mint int

// c10embptr returns a value of a struct type that did not exist before, embedding *c10embedded (nil or set).
func c10embptr(t reflect.Type, set bool) interface{} {
	v := reflect.New(t).Elem()
	if set {
		v.Field(0).Set(reflect.ValueOf(&c10embedded{Field: "promoted"}))
	}
	return v.Interface()
}

type c10result struct {
	out, err string
}

func (r c10result) String() string { return fmt.Sprintf("out=%q err=%q", r.out, r.err) }

// deepHash hashes the reachable exported state of a parsed template tree.
func deepHash(v reflect.Value, h *strings.Builder, depth int, seen map[uintptr]bool) {
	if depth > 200 {
		return
	}
	switch v.Kind() {
	case reflect.Interface:
		if !v.IsNil() {
			h.WriteString(v.Elem().Type().String())
			deepHash(v.Elem(), h, depth+1, seen)
		}
	case reflect.Ptr:
		if v.IsNil() {
			h.WriteString("nil;")
			return
		}
		if v.Elem().Kind() == reflect.Struct {
			n := v.Elem().Type().Name()
			if n == "Template" || n == "Set" {
				return
			}
			if seen[v.Pointer()] {
				h.WriteString("seen;")
				return
			}
			seen[v.Pointer()] = true
		}
		deepHash(v.Elem(), h, depth+1, seen)
	case reflect.Struct:
		t := v.Type()
		h.WriteString(t.Name() + "{")
		for i := 0; i < v.NumField(); i++ {
			f := t.Field(i)
			if f.PkgPath != "" && !f.Anonymous {
				continue
			}
			h.WriteString(f.Name + ":")
			deepHash(v.Field(i), h, depth+1, seen)
		}
		h.WriteString("}")
	case reflect.Slice:
		h.WriteString(fmt.Sprintf("[%d:", v.Len()))
		if v.Type().Elem().Kind() == reflect.Uint8 {
			h.WriteString(string(v.Bytes()))
		} else {
			for i := 0; i < v.Len(); i++ {
				deepHash(v.Index(i), h, depth+1, seen)
			}
		}
		h.WriteString("]")
	case reflect.Map:
		h.WriteString(fmt.Sprintf("map%d;", v.Len()))
	case reflect.String:
		h.WriteString(v.String() + ";")
	case reflect.Bool, reflect.Int, reflect.Int8, reflect.Int16, reflect.Int32, reflect.Int64, reflect.Uint, reflect.Uint8, reflect.Uint16, reflect.Uint32, reflect.Uint64, reflect.Float32, reflect.Float64, reflect.Complex128:
		h.WriteString(fmt.Sprint(v.Interface()) + ";")
	}
}

func templateHash(t *jet.Template) string {
	var b strings.Builder
	deepHash(reflect.ValueOf(t.Root), &b, 0, map[uintptr]bool{})
	b.WriteString(t.String())
	s := sha1.Sum([]byte(b.String()))
	return hex.EncodeToString(s[:8])
}

var c10rtLog []uintptr

func c10extra() map[string]interface{} {
	return map[string]interface{}{
		"rtprobe": jet.Func(func(a jet.Arguments) reflect.Value {
			c10rtLog = append(c10rtLog, reflect.ValueOf(a.Runtime()).Pointer())
			return reflect.ValueOf("")
		}),
		"panicstr": func() string { panic("a function panicking with a plain string") },
		"panicerr": func() string { panic(fmt.Errorf("a function reporting an error")) },
		"bumpi":    func(p *int64) int64 { *p++; return *p },
		"bumpf":    func(p *float64) float64 { *p++; return *p },
		"bumps":    func(p *string) string { *p += "+"; return *p },
	}
}

// c10exec executes unit u once (fresh variables and data) and returns the observable result.
func c10exec(u *c10unit, failAfter int) c10result {
	if u.nilVars {
		w := rec.NewWriter()
		w.FailAfter = failAfter
		r := jx.ExecW(u.tmpl, w, nil, nil)
		res := c10result{out: w.String()}
		switch {
		case r.Panic != nil:
			res.err = fmt.Sprintf("PANIC: %v", r.Panic)
		case r.Err != nil:
			res.err = r.Err.Error()
		}
		return res
	}
	vars := jet.VarMap{}
	for k, v := range u.p.Vars {
		vars.Set(k, prog.ToGo(v))
	}
	vars.Set("probe", func(id string, args ...interface{}) string { return "‹" + id + "›" })
	for k, v := range u.extra {
		vars.Set(k, v)
	}
	var data interface{}
	if u.p.HasData {
		data = prog.ToGo(u.p.Data)
	}
	if u.data != nil {
		data = u.data()
	}
	w := rec.NewWriter()
	w.FailAfter = failAfter
	r := jx.ExecW(u.tmpl, w, vars, data)
	res := c10result{out: w.String()}
	switch {
	case r.Panic != nil:
		res.err = fmt.Sprintf("PANIC: %v", r.Panic)
	case r.Err != nil:
		res.err = r.Err.Error()
	}
	return res
}

func c10probeUnit(name, src string, data prog.Value, hasData bool) *c10unit {
	p := &prog.Program{Main: "/probe.jet", Files: []*prog.File{{Path: "/probe.jet", Body: []prog.Node{&prog.RawFail{Src: src}}}}, Vars: map[string]prog.Value{}, Data: data, HasData: hasData}
	return &c10unit{name: name, p: p}
}

func c10n(tier string) int {
	if tier == "thorough" {
		return 60000
	}
	return 1500
}

func c10run(c *fw.Ctx, idx int) {
	r := c.Rand(idx, "c10")
	t0 := time.Now()
	var units []*c10unit
	nprog := 4 + r.Intn(4)
	for i := 0; i < nprog; i++ {
		cfg := prog.Cfg{Items: 3, MaxDepth: 3, Ifs: true, Ranges: true, Vars: true, Blocks: true, MultiFile: i%2 == 0, Includes: i%3 == 0, Try: i%2 == 1, Fails: true, FailAnywhere: true, Ctx: true, CondKinds: true, SharedNames: true, IssetSwallow: true, IncludeIfExists: i%2 == 0}
		p, _ := prog.Gen(r, cfg)
		// plant a failure that escapes Execute as a panic, or an error raised by a function, at the end of some programs
		mainRoot := p.File(p.Main)
		for mainRoot.Extends != "" {
			mainRoot = p.Resolve(mainRoot.Extends, mainRoot.Path)
		}
		mainRoot.Body = append([]prog.Node{&prog.Print{E: prog.Opaque{Src: "rtprobe()", Val: prog.Str("")}}}, mainRoot.Body...)
		first := &c10unit{name: fmt.Sprintf("prog%d", i), p: p}
		units = append(units, first)
		// other files of the same template set executed as entry points on the SAME Set (layouts, libraries, include
		// targets): what they render must not depend on what was loaded or executed before on that Set
		for k := 0; k < 2 && len(p.Files) > 1; k++ {
			q := *p
			q.Main = p.Files[r.Intn(len(p.Files))].Path
			if q.Main != p.Main {
				units = append(units, &c10unit{name: fmt.Sprintf("prog%d-entry%d", i, k), p: &q, share: first})
			}
		}
	}
	// templates that fail at a point where interpreter state is bound, ending in a panic or error
	deep := func(tail string) string {
		return `{{block cb(p="d")}}[{{x := "bx"}}{{yield content}}{{if y := p; y}}{{range i, e := xs}}{{z := e}}` + tail + `{{end}}{{end}}]{{content}}{{end}}` +
			`{{outer := "o"}}{{yield cb(p="arg") "ctx-of-yield" content}}CONTENT-OF-FAILED-EXECUTION{{end}}`
	}
	units = append(units,
		c10probeUnit("fail-deep-error", deep(`{{nosuch}}`), prog.Str("data-of-failed"), true),
		c10probeUnit("fail-deep-panic-string", deep(`{{panicstr()}}`), prog.Str("data-of-failed"), true),
		c10probeUnit("fail-deep-func-error", deep(`{{panicerr()}}`), prog.Str("data-of-failed"), true),
		c10probeUnit("fail-in-try-then-outside", `{{try}}{{range xs}}{{nosuch}}{{end}}{{end}}{{range xs}}{{q := .}}{{panicstr()}}{{end}}`, prog.Str("data-of-failed"), true),
		c10probeUnit("try-output", `{{try}}TRY-BODY-OUTPUT-{{.}}-{{range xs}}{{.}}{{end}}{{end}}tail`, prog.Str("alice"), true),
		// probes: expose context, content, variables and destination
		c10probeUnit("probe-dot", `ctx=<{{.}}>`, prog.Value{}, false),
		c10probeUnit("probe-content", `content=<{{yield content}}>`, prog.Value{}, false),
		c10probeUnit("probe-vars", `vars=<{{isset(x)}}{{isset(y)}}{{isset(z)}}{{isset(outer)}}{{isset(p)}}{{isset(q)}}{{isset(v1)}}{{isset(v2)}}{{isset(v3)}}{{isset(i)}}{{isset(e)}}>`, prog.Value{}, false),
		c10probeUnit("probe-try", `{{try}}in-try{{end}}|{{try}}{{nosuch}}{{catch}}caught{{end}}`, prog.Value{}, false),
		c10probeUnit("nilvars-letglobal", `{{ s := 0 }}{{ letg("leakvar", "LEAKED") }}[{{ leakvar }}]`, prog.Value{}, false),
		c10probeUnit("nilvars-probe", `[{{ isset(leakvar) }}{{ isset(s) }}]`, prog.Value{}, false),
		c10probeUnit("probe-block", `{{block cb(p="d")}}({{p}}{{yield content}}){{content}}default{{end}}`, prog.Value{}, false),
		// executed with a nil VarMap: a failure below a range with variables / an if with assignment, in a template defining
		// a block; then a template that yields a block of that name without defining it (always an error)
		c10probeUnit("nilvars-fail-below-range-in-template-with-block", `{{block leakrow()}}LEAKED-BLOCK{{end}}|{{range i, r := ints(0, 2)}}{{if x := i; true}}{{ nosuchvarq }}{{end}}{{end}}`, prog.Value{}, false),
		c10probeUnit("nilvars-yield-of-undefined-block", `summary:{{yield leakrow()}}`, prog.Value{}, false),
		// map() makes a map of its own every time, whatever earlier executions wrote into theirs
		c10probeUnit("map-literal-written-to", `{{ m := map() }}{{ m.title = "Secret plan" }}{{ m.n = 2 }}{{ len(m) }}:{{ m.title }}`, prog.Value{}, false),
		c10probeUnit("map-literal-fresh", `{{ card := map() }}{{ len(card) }}:{{ isset(card.title) ? card.title : "untitled" }}|{{ len(map()) }}`, prog.Value{}, false),
	)
	// process-wide caches keyed by data type: a struct type minted for this case, with a field promoted through an
	// embedded pointer that is nil in one unit and set in the other
	c10mint++
	et := reflect.StructOf([]reflect.StructField{
		{Name: "C10embedded", Type: reflect.TypeOf(&c10embedded{}), Anonymous: true},
		{Name: fmt.Sprintf("U%d_%d", idx, c10mint), Type: reflect.TypeOf(0)},
	})
	for _, set := range []bool{false, true} {
		set := set
		name := map[bool]string{false: "embptr-nil", true: "embptr-set"}[set]
		u := c10probeUnit(name, `[{{ .Field }}]`, prog.Value{}, false)
		u.data = func() interface{} { return c10embptr(et, set) }
		ut := c10probeUnit(name+"-in-try", `{{try}}[{{ .Field }}]{{catch e}}<{{ e }}>{{end}}|{{ isset(.Field) }}`, prog.Value{}, false)
		ut.data = u.data
		units = append(units, u, ut)
	}
	// one parsed template executed with different variables: an include whose name is computed from a variable
	incp := &prog.Program{Main: "/probe.jet", Vars: map[string]prog.Value{}, Files: []*prog.File{
		{Path: "/probe.jet", Body: []prog.Node{&prog.RawFail{Src: `<{{ include "/parts/" + kind }}|{{ include pre + "b.jet" }}|{{ if includeIfExists("/parts/" + kind) }}y{{ else }}n{{ end }}>`}}},
		{Path: "/parts/a.jet", Body: []prog.Node{&prog.Text{S: "PART-A"}}},
		{Path: "/parts/b.jet", Body: []prog.Node{&prog.Text{S: "PART-B"}}},
		{Path: "/alt/b.jet", Body: []prog.Node{&prog.Text{S: "ALT-B"}}},
	}}
	// a template whose include target does not parse: every execution fails the same way (the failed parse is not remembered)
	brokenp := &prog.Program{Main: "/probe.jet", Vars: map[string]prog.Value{}, Files: []*prog.File{
		{Path: "/probe.jet", Body: []prog.Node{&prog.RawFail{Src: `before<{{ include "/broken.jet" }}>after`}}},
		{Path: "/broken.jet", Body: []prog.Node{&prog.RawFail{Src: `x{{ if }}y`}}},
	}}
	brokenFirst := &c10unit{name: "include-of-unparsable-template", p: brokenp}
	units = append(units, brokenFirst, &c10unit{name: "include-of-unparsable-template-again", p: brokenp, share: brokenFirst})
	// ranges left early (return) over maps/slices, then ranges over empty and nil collections: nothing is left over
	units = append(units,
		c10probeUnit("range-left-early", `{{range bigmap}}x{{return 1}}{{end}}|{{range k, v := bigmap}}y{{return 2}}{{end}}|{{range xs}}z{{return 3}}{{end}}`, prog.Value{}, false),
		c10probeUnit("range-over-empty", `[{{range k, v := emptymap}}{{k}}={{v}}{{else}}nothing{{end}}][{{range nilmap}}{{.}}{{else}}nil{{end}}][{{range i, v := emptysl}}{{i}}{{v}}{{else}}none{{end}}]`, prog.Value{}, false),
	)
	// one layout with a positional yield argument, extended by templates whose overriding blocks name their first
	// parameter differently: what the argument binds to is decided per execution
	posp := func(main string) *prog.Program {
		return &prog.Program{Main: main, Vars: map[string]prog.Value{}, Files: []*prog.File{
			{Path: "/poslayout.jet", Body: []prog.Node{&prog.RawFail{Src: `L<{{block item(title="none")}}[{{title}}]{{end}}|{{yield item("x")}}>`}}},
			{Path: "/posa.jet", Body: []prog.Node{&prog.RawFail{Src: `{{extends "/poslayout.jet"}}{{block item(title="A-none")}}A:{{title}}{{end}}`}}},
			{Path: "/posb.jet", Body: []prog.Node{&prog.RawFail{Src: `{{extends "/poslayout.jet"}}{{block item(label="B-none", title="B-t")}}B:{{label}}/{{title}}{{end}}`}}},
		}}
	}
	posA := &c10unit{name: "positional-yield-argument-child-a", p: posp("/posa.jet")}
	units = append(units, posA, &c10unit{name: "positional-yield-argument-child-b", p: posp("/posb.jet"), share: posA},
		&c10unit{name: "positional-yield-argument-layout", p: posp("/poslayout.jet"), share: posA})
	// Go functions with pointer parameters called with literals and with variables bound to literals: whatever the call
	// does (it is rejected: a float64 is no *float64), the parsed template is what it was and renders the same again
	units = append(units,
		c10probeUnit("pointer-parameter-given-a-literal", `{{ n := 10 }}{{ try }}{{ bumpf(n) }}{{ catch }}E{{ end }};n={{ n }}|{{ try }}{{ bumpi(n) }}{{ catch }}E{{ end }}|{{ try }}{{ bumpf(2.5) }}{{ catch }}E{{ end }}|{{ f := 1.5 }}{{ try }}{{ bumpf(f) }}{{ catch }}E{{ end }};f={{ f }}|{{ try }}{{ bumps("lit") }}{{ catch }}E{{ end }}`, prog.Value{}, false))
	// dump() reports the globals of the Set; a template variable named like one of them changes nothing about the Set
	dumpp := func(main string) *prog.Program {
		return &prog.Program{Main: main, Vars: map[string]prog.Value{}, Globals: map[string]prog.Value{"sitetitle": prog.Str("Site"), "sitelang": prog.Str("en")}, Data: prog.Str("a-context"), HasData: true, Files: []*prog.File{
			{Path: "/dumps.jet", Body: []prog.Node{&prog.RawFail{Src: `{{ sitetitle := "local" }}{{ if true }}{{ sitelang := "xx" }}{{ d := dump() }}{{ len(d) > 0 }}{{ d2 := dump(2) }}{{ len(d2) > 0 }}{{ end }}:{{ sitetitle }}`}}},
			{Path: "/globals.jet", Body: []prog.Node{&prog.RawFail{Src: `[{{ sitetitle }}|{{ sitelang }}|{{ isset(sitetitle) }}]`}}},
			{Path: "/assignglobal.jet", Body: []prog.Node{&prog.RawFail{Src: `{{ try }}{{ sitetitle = "overridden" }}A{{ catch }}E{{ end }}|{{ try }}{{ range sitelang = xs }}{{ end }}B{{ catch }}E{{ end }}|{{ sitetitle }}`}}},
		}}
	}
	dumpFirst := &c10unit{name: "dump-beside-variables-named-like-globals", p: dumpp("/dumps.jet")}
	units = append(units, dumpFirst, &c10unit{name: "globals-rendered", p: dumpp("/globals.jet"), share: dumpFirst},
		&c10unit{name: "assignment-to-a-name-that-is-only-a-global", p: dumpp("/assignglobal.jet"), share: dumpFirst})
	// two struct types of the same name with their fields in another order, rendered by one template: what an execution
	// learnt about the first is not applied to the second (the field index cache is process-wide, so the expected
	// rendering is spelt out instead of taken from a reference execution)
	rowp := &prog.Program{Main: "/probe.jet", Vars: map[string]prog.Value{}, Files: []*prog.File{{Path: "/probe.jet", Body: []prog.Node{&prog.RawFail{Src: `{{ .Label }} <{{ .N }}>`}}}}}
	rowA := &c10unit{name: "same-named-struct-type-a", p: rowp, data: c11rowA, want: &c10result{out: "report <3>"}}
	rowB := &c10unit{name: "same-named-struct-type-b", p: rowp, data: c11rowB, want: &c10result{out: "other <99>"}, share: rowA}
	units = append(units, rowA, rowB)
	// dump() lists variables, globals and blocks in sorted order: the same bytes every time
	dumpb := &prog.Program{Main: "/dumpblocks.jet", Vars: map[string]prog.Value{}, Data: prog.Str("a-context"), HasData: true, Files: []*prog.File{
		{Path: "/dumpblocks.jet", Body: []prog.Node{&prog.RawFail{Src: `{{extends "/dumplayout.jet"}}{{import "/dumplib.jet"}}{{block b3()}}3{{end}}{{block b1()}}1{{end}}{{block b7()}}7{{end}}`}}},
		{Path: "/dumplayout.jet", Body: []prog.Node{&prog.RawFail{Src: `{{block b2()}}2{{end}}{{block b6(x=1)}}6{{end}}|{{ split(dump(), "Blocks:")[1] }}`}}},
		{Path: "/dumplib.jet", Body: []prog.Node{&prog.RawFail{Src: `{{block b5()}}5{{end}}{{block b4()}}4{{end}}`}}},
	}}
	units = append(units, &c10unit{name: "dump-lists-blocks", p: dumpb})
	// LetGlobal called in an execution without variables binds for that execution only: a later execution on the same Set
	// (also without variables) does not see the name
	lgp := func(main string) *prog.Program {
		return &prog.Program{Main: main, Vars: map[string]prog.Value{}, Files: []*prog.File{
			{Path: "/letg.jet", Body: []prog.Node{&prog.RawFail{Src: `{{ letg("flashvar", "saved") }}[{{ isset(flashvar) }}]`}}},
			{Path: "/seeg.jet", Body: []prog.Node{&prog.RawFail{Src: `[{{ isset(flashvar) }}{{ isset(leakvar) }}]`}}},
		}}
	}
	lgFirst := &c10unit{name: "nilvars-letglobal-without-any-scope", p: lgp("/letg.jet")}
	units = append(units, lgFirst, &c10unit{name: "nilvars-probe-on-the-same-set", p: lgp("/seeg.jet"), share: lgFirst})
	var incFirst *c10unit
	for _, v := range [][2]string{{"a.jet", "/parts/"}, {"b.jet", "/alt/"}, {"missing.jet", "/parts/"}, {"b.jet", "/parts/"}} {
		u := &c10unit{name: "include-computed-" + strings.TrimSuffix(v[0], ".jet") + "-" + strings.Trim(v[1], "/"), p: incp, share: incFirst}
		u.extra = map[string]interface{}{"kind": v[0], "pre": v[1]}
		if incFirst == nil {
			incFirst = u
		}
		units = append(units, u)
	}
	for _, u := range units {
		ex := c10extra()
		for k, v := range u.extra {
			ex[k] = v
		}
		u.extra = ex
		u.extra["xs"] = []string{"e1", "e2"}
		u.extra["bigmap"] = map[string]int{"alice": 1, "bob": 2, "carol": 3, "dave": 4}
		u.extra["emptymap"] = map[string]int{}
		u.extra["nilmap"] = map[string]int(nil)
		u.extra["emptysl"] = []string{}
		u := u
		u.nilVars = strings.HasPrefix(u.name, "nilvars")
		u.mkset = func() *jet.Set {
			set := u.p.NewSet(false, jx.NoEscape)
			if u.nilVars {
				set.AddGlobalFunc("letg", func(a jet.Arguments) reflect.Value {
					a.Runtime().LetGlobal(fmt.Sprint(a.Get(0).Interface()), fmt.Sprint(a.Get(1).Interface()))
					return reflect.ValueOf("")
				})
			}
			return set
		}
		if u.share != nil {
			u.set, u.tmpl, u.hash, u.ref = u.share.set, u.share.tmpl, u.share.hash, map[int]c10result{}
			if u.p.Main != u.share.p.Main {
				t, err, pan := jx.Get(u.set, u.p.Main)
				if err != nil || pan != nil {
					c.Begin(idx, map[string]interface{}{"unit": u.name, "files": u.p.Sources(false)})
					c.Violation("c10:harness:unit-does-not-parse", "", fmt.Sprint(err, pan))
					c.End()
					return
				}
				u.tmpl, u.hash = t, ""
			}
			continue
		}
		u.set = u.mkset()
		t, err, pan := jx.Get(u.set, u.p.Main)
		if err != nil || pan != nil {
			c.Begin(idx, map[string]interface{}{"unit": u.name, "files": u.p.Sources(false)})
			c.Violation("c10:harness:unit-does-not-parse", "", fmt.Sprint(err, pan))
			c.End()
			return
		}
		u.tmpl = t
		u.hash = templateHash(t)
		u.ref = map[int]c10result{}
	}
	// history
	type step struct {
		Unit      string `json:"unit"`
		FailAfter int    `json:"writer_fails_after"`
		u         *c10unit
	}
	n := 8 + r.Intn(25)
	var hist []step
	for i := 0; i < n; i++ {
		u := units[r.Intn(len(units))]
		fa := -1
		if r.Intn(5) == 0 {
			fa = r.Intn(40)
		}
		hist = append(hist, step{Unit: u.name, FailAfter: fa, u: u})
	}
	desc := map[string]interface{}{"history": hist}
	files := map[string]interface{}{}
	for _, u := range units {
		files[u.name] = u.p.Sources(false)
	}
	desc["units"] = files
	c.Begin(idx, desc)
	defer c.End()

	c.Count("us_setup", int(time.Since(t0).Microseconds()))
	t1 := time.Now()
	defer func() { c.Count("us_refs_and_history", int(time.Since(t1).Microseconds())) }()
	runtime.LockOSThread()
	defer runtime.UnlockOSThread()
	old := debug.SetGCPercent(-1)
	defer debug.SetGCPercent(old)

	// fresh-state references: every (unit, writer) pair of the history executed right after draining the pools
	for pass := 0; pass < 2; pass++ {
		for _, s := range hist {
			if pass == 0 && !strings.HasPrefix(s.Unit, "embptr-nil") {
				continue // the units whose outcome a later success could change get their reference first
			}
			if _, ok := s.u.ref[s.FailAfter]; !ok {
				hook.Drain()
				s.u.ref[s.FailAfter] = c10fresh(s.u, s.FailAfter)
				c.Eval(1)
			}
		}
	}
	for _, s := range hist {
		if _, ok := s.u.ref[s.FailAfter]; !ok {
			hook.Drain()
			s.u.ref[s.FailAfter] = c10fresh(s.u, s.FailAfter)
			c.Eval(1)
		}
	}
	hook.Drain()
	c10rtLog = c10rtLog[:0]
	var prev uintptr
	reused, pairs := 0, 0
	for i, s := range hist {
		before := len(c10rtLog)
		got := c10exec(s.u, s.FailAfter)
		c.Eval(1)
		if len(c10rtLog) > before {
			cur := c10rtLog[before]
			if prev != 0 {
				pairs++
				if cur == prev {
					reused++
				}
			}
			prev = cur
		}
		want := s.u.ref[s.FailAfter]
		if got != want {
			prevName := "(first)"
			if i > 0 {
				prevName = hist[i-1].Unit
			}
			c.Violation("c10:residue:"+c10kind(prevName)+"->"+c10kind(s.Unit), "", map[string]interface{}{
				"step": i, "unit": s.Unit, "previous": prevName, "fresh_state_result": want.String(), "result_in_history": got.String()})
			return
		}
	}
	for _, u := range units {
		if u.hash == "" {
			continue // entry units: their trees are part of the Set hashed through the program's main unit
		}
		if h := templateHash(u.tmpl); h != u.hash {
			c.Violation("c10:template-modified:"+c10kind(u.name), "", fmt.Sprintf("parsed template of %s changed during the history (%s -> %s)", u.name, u.hash, h))
			return
		}
	}
	c.Count("histories", 1)
	c.Count("steps", n)
	c.Count("runtime_reuse_pairs", pairs)
	c.Count("runtime_reused", reused)
	failedThenProbe := false
	for i := 1; i < len(hist); i++ {
		if strings.HasPrefix(hist[i-1].Unit, "fail") || hist[i-1].u.ref[hist[i-1].FailAfter].err != "" {
			failedThenProbe = true
			c.Distinct(c10kind(hist[i-1].Unit) + "|" + fmt.Sprint(hist[i-1].FailAfter >= 0) + "->" + c10kind(hist[i].Unit))
		}
	}
	_ = failedThenProbe
	if idx%37 == 0 {
		var hs []string
		for _, s := range hist {
			hs = append(hs, fmt.Sprintf("%s(w=%d)", s.Unit, s.FailAfter))
		}
		c.Sample(map[string]interface{}{"history": hs, "runtime_reused_in_consecutive_pairs": fmt.Sprintf("%d/%d", reused, pairs)})
	}
}

func c10kind(n string) string {
	if strings.HasPrefix(n, "prog") {
		return "generated"
	}
	return n
}

func c10finish(c *fw.Ctx) {}

func init() {
	fw.Register(&fw.Property{
		ID:        "C10",
		Technique: "history monitor with fresh-state reference: every Execute of a history on one locked OS thread (pooled Runtime reused, GC off) must equal the same call executed on a freshly built and parsed Set right after the pools were drained; parsed templates hashed before/after",
		Rule: "each case is one history of 8-32 Execute calls over a pool of 4-7 generated programs, each also through up to two other entry points on the same Set (failures anywhere: in yields with content, ranges, if-let, includes, try) plus 27 fixed templates: executions failing deep inside a block yielded with content below if-let and range (ending in an error, a function error, or a string panic that escapes Execute), try bodies, and probes exposing '.', 'yield content', isset() of names bound earlier, try/catch and block defaults, and a field promoted through an embedded pointer (nil in one unit, set in another) of a struct type minted per history, one parsed template with computed include names executed with four different variable bindings, an include of a template that does not parse, ranges left early by a return followed by ranges over empty and nil collections; " +
			"a fifth of the calls write into a writer that fails after 0-39 bytes; oracle: (bytes written, error text) of every call equals the fresh-state reference of the same (template, variables, writer) triple, obtained on a Set parsed from scratch after replacing the Runtime and ranger pools (hook VerifDrainPools; fallback two GC cycles); template trees hashed by reflection before and after; " +
			"non-trivial = a failed execution immediately followed by another execution on the reused Runtime; distinct by (failing unit, writer failed, following unit); evidence records how often consecutive executions saw the same *Runtime Since waves 8/9: units calling Go functions with pointer parameters on literals, dump() beside variables named like Set globals followed by a template rendering the globals, one template over two same-named struct types with swapped fields (expected result spelt out), the Blocks section of dump() for seven blocks.",
		Assumptions: []string{"generated programs are deterministic (single-entry maps, fresh channels and VarMaps per execution)", "not run under the race detector (it drops pool items at random)"},
		NCases:      c10n,
		RunCase:     c10run,
		MinDistinct: 20,
		Inconclusive: func(cnt map[string]int64) string {
			if cnt["runtime_reuse_pairs"] == 0 || cnt["runtime_reused"]*2 < cnt["runtime_reuse_pairs"] {
				return fmt.Sprintf("the pooled Runtime was reused in only %d of %d consecutive executions: residue could not have been observed", cnt["runtime_reused"], cnt["runtime_reuse_pairs"])
			}
			return ""
		},
		Extra: func(cnt map[string]int64) map[string]interface{} {
			return map[string]interface{}{"runtime_reuse_ratio": fmt.Sprintf("%d/%d", cnt["runtime_reused"], cnt["runtime_reuse_pairs"])}
		},
	})
}
