package props

import (
	"fmt"
	"math/rand"
	"reflect"
	"strings"

	"github.com/CloudyKit/jet/v6"
	"verifh/internal/fw"
	"verifh/internal/hook"
	"verifh/internal/jx"
)

// C18: the Go-side Runtime and Arguments API mirrors template semantics.

type c18gen struct {
	r         *rand.Rand
	n         int
	scopes    []map[string]bool // statically visible names
	a, b      strings.Builder   // API form / syntax form of the current file
	files     [2]map[string]string
	blocks    []string
	globals   []string
	depth     int
	feat      map[string]bool
	allowFail bool     // programs with LetGlobal have no failing Set: a call that is never reached would leave the twins different
	names     []string // name pool of the block body being generated (nil: x, y, z)
}

func (g *c18gen) tok() string { g.n++; return fmt.Sprintf("t%d", g.n) }

func (g *c18gen) visible(name string) bool {
	for _, s := range g.scopes {
		if s[name] {
			return true
		}
	}
	return false
}

func (g *c18gen) both(s string) { g.a.WriteString(s); g.b.WriteString(s) }

func (g *c18gen) open() {
	g.scopes = append(g.scopes, map[string]bool{})
	g.n++
	// every list first opens its scope with a declaration, so that Let and := agree on "the innermost open scope"
	g.both(fmt.Sprintf("{{ seed%d := 0 }}", g.n))
}
func (g *c18gen) close() { g.scopes = g.scopes[:len(g.scopes)-1] }

var c18names = []string{"x", "y", "z", "rv"} // rv lives in the VarMap given to Execute (the outermost scope)

func (g *c18gen) op() {
	pool := c18names
	if g.names != nil {
		pool = g.names
	}
	name := pool[g.r.Intn(len(pool))]
	v := g.tok()
	top := g.scopes[len(g.scopes)-1]
	switch k := g.r.Intn(14); {
	case k < 2:
		g.feat["let"] = true
		g.a.WriteString(fmt.Sprintf(`{{ let(%q, %q) }}`, name, v))
		g.b.WriteString(fmt.Sprintf(`{{ %s := %q }}`, name, v))
		top[name] = true
	case k < 4 && g.allowFail && g.r.Intn(12) == 0:
		// a name that only resolves to a built-in is no variable: Set reports an error exactly like '='
		g.feat["set-builtin-name"] = true
		bn := []string{"len", "upper", "isset"}[g.r.Intn(3)]
		g.a.WriteString(fmt.Sprintf(`{{ set(%q, %q) }}`, bn, v))
		g.b.WriteString(fmt.Sprintf(`{{ %s = %q }}`, bn, v))
	case k < 4:
		g.feat["set"] = true
		if !g.visible(name) && (!g.allowFail || g.r.Intn(4) != 0) {
			return // mostly keep programs alive; sometimes exercise the error
		}
		if !g.visible(name) {
			g.feat["set-undeclared"] = true
		}
		g.a.WriteString(fmt.Sprintf(`{{ set(%q, %q) }}`, name, v))
		g.b.WriteString(fmt.Sprintf(`{{ %s = %q }}`, name, v))
	case k < 6:
		g.feat["setorlet"] = true
		g.a.WriteString(fmt.Sprintf(`{{ setorlet(%q, %q) }}`, name, v))
		if g.visible(name) {
			g.b.WriteString(fmt.Sprintf(`{{ %s = %q }}`, name, v))
		} else {
			g.b.WriteString(fmt.Sprintf(`{{ %s := %q }}`, name, v))
			top[name] = true
		}
	case k == 6 && g.r.Intn(2) == 0:
		// a variable that exists but holds nil: SetOrLet from a deeper scope must still rebind it like '='
		g.feat["let-nil"] = true
		g.a.WriteString(fmt.Sprintf(`{{ letnil(%q) }}`, name))
		g.b.WriteString(fmt.Sprintf(`{{ %s := nil }}`, name))
		top[name] = true
	case k < 8:
		if g.visible(name) {
			g.feat["resolve"] = true
			g.a.WriteString(fmt.Sprintf(`[%s={{ resolve(%q) }}]`, name, name))
			g.b.WriteString(fmt.Sprintf(`[%s={{ %s }}]`, name, name))
		} else {
			g.both(fmt.Sprintf(`[?%s={{ isset(%s) }}]`, name, name))
		}
	case k == 8:
		g.feat["context"] = true
		g.a.WriteString(`[.={{ ctx() }}]`)
		g.b.WriteString(`[.={{ . }}]`)
	case (k == 9 || k == 13) && len(g.blocks) > 0:
		g.feat["yieldblock"] = true
		b := g.blocks[g.r.Intn(len(g.blocks))]
		if g.r.Intn(5) == 0 {
			// a context that is a typed nil (nil map, nil slice, nil pointer) is a context all the same
			nv := []string{"nilm", "nils", "nilp"}[g.r.Intn(3)]
			g.feat["yieldblock-typed-nil-ctx"] = true
			g.a.WriteString(fmt.Sprintf(`{{ yieldblock(%q, %s) }}`, b, nv))
			g.b.WriteString(fmt.Sprintf(`{{yield %s() %s}}`, b, nv))
		} else if g.r.Intn(2) == 0 {
			c := g.tok()
			g.feat["yieldblock-ctx"] = true
			g.a.WriteString(fmt.Sprintf(`{{ yieldblock(%q, %q) }}`, b, c))
			g.b.WriteString(fmt.Sprintf(`{{yield %s() %q}}`, b, c))
		} else {
			g.a.WriteString(fmt.Sprintf(`{{ yieldblock(%q, nil) }}`, b))
			g.b.WriteString(fmt.Sprintf(`{{yield %s()}}`, b))
		}
	case k == 10 && !g.allowFail:
		g.feat["letglobal"] = true
		gn := fmt.Sprintf("g%d", len(g.globals)+1)
		g.globals = append(g.globals, gn)
		g.a.WriteString(fmt.Sprintf(`{{ letglobal(%q, %q) }}[%s={{ %s }}]`, gn, v, gn, gn))
		g.b.WriteString(fmt.Sprintf(`{{ %s = %q }}[%s={{ %s }}]`, gn, v, gn, gn))
	case (k == 11 || k == 12) && g.depth < 3:
		g.nest()
	default:
		g.both(g.tok() + ";")
	}
}

func (g *c18gen) list() {
	g.open()
	for i := 2 + g.r.Intn(5); i > 0; i-- {
		g.op()
	}
	for _, gn := range g.globals { // globals stay visible after the construct that declared them ended
		if g.r.Intn(3) == 0 {
			g.both(fmt.Sprintf(`[%s={{ %s }}]`, gn, gn))
		}
	}
	g.close()
}

func (g *c18gen) nest() {
	g.depth++
	defer func() { g.depth-- }()
	k := g.r.Intn(6)
	if k == 5 && len(g.blocks) == 0 {
		k = 0
	}
	switch k {
	case 5:
		// a block defined earlier yielded WITH content (plain text): calls made by its body run below that content
		g.feat["below-content"] = true
		b := g.blocks[g.r.Intn(len(g.blocks))]
		g.both("{{yield " + b + "() content}}K" + g.tok() + "{{end}}")
	case 0:
		g.feat["in-if"] = true
		g.both("{{if true}}")
		g.list()
		g.both("{{end}}")
	case 1:
		g.feat["in-range"] = true
		if g.r.Intn(2) == 0 {
			// loop variables of a range over []interface{} / map[string]interface{}: Resolve is identifier lookup, also for
			// the kind of value it hands back (asked right at the start of the body, in the scope the range opened)
			g.feat["resolve-loop-var"] = true
			g.n++
			kv, vv := fmt.Sprintf("rk%d", g.n), fmt.Sprintf("rv%d", g.n)
			g.both(fmt.Sprintf("{{range %s, %s := %s}}", kv, vv, []string{"ifs", "ifm"}[g.r.Intn(2)]))
			g.a.WriteString(fmt.Sprintf("[kind:{{ resolvekind(%q) }}={{ resolve(%q) }}]", vv, vv))
			g.b.WriteString(fmt.Sprintf("[kind:{{ kindof(%s) }}={{ %s }}]", vv, vv))
			g.list()
			g.both("{{end}}")
			break
		}
		g.both(fmt.Sprintf("{{range k%d := ints(0, 2)}}", g.n))
		g.list()
		g.both("{{end}}")
	case 2:
		g.feat["in-block"] = true
		g.n++
		name := fmt.Sprintf("b%d", g.n)
		decl := name + "()"
		if g.r.Intn(3) == 0 {
			// a block declared with a context expression of its own: that context is for the definition site only; a yield
			// (from the template or from Go) brings its own context or keeps the current one
			decl += fmt.Sprintf(" %q", "declctx-"+name)
			g.feat["block-declared-with-context"] = true
		}
		g.both("{{block " + decl + "}}(" + name + ":{{ probe(\"" + name + "\") }}[.={{ . }}]")
		saveScopes, saveNames := g.scopes, g.names
		g.scopes = []map[string]bool{{}} // a block body may be yielded from anywhere: no local name is statically visible,
		// and (blocks being dynamically scoped, a design choice) it uses names of its own so that it never touches the yielder's
		g.names = []string{"x_" + name, "y_" + name, "z_" + name}
		g.list()
		g.scopes, g.names = saveScopes, saveNames
		g.both("){{end}}")
		g.blocks = append(g.blocks, name)
	case 3:
		g.feat["in-include"] = true
		g.n++
		name := fmt.Sprintf("/inc%d.jet", g.n)
		sa, sb := g.a.String(), g.b.String()
		g.a.Reset()
		g.b.Reset()
		g.both("<i:")
		saveBlocks := append([]string{}, g.blocks...)
		g.list()
		g.blocks = saveBlocks // blocks defined by the included template are not in the includer's table
		g.both(">")
		g.files[0][name], g.files[1][name] = g.a.String(), g.b.String()
		g.a.Reset()
		g.b.Reset()
		g.a.WriteString(sa)
		g.b.WriteString(sb)
		ctx := ""
		if g.r.Intn(2) == 0 {
			ctx = fmt.Sprintf(" %q", g.tok())
		}
		g.both(fmt.Sprintf(`{{include %q%s}}`, name, ctx))
	case 4:
		g.feat["in-try"] = true
		g.both("{{try}}")
		g.list()
		g.both("{{catch}}<caught>{{end}}")
	}
}

func c18vars(log *[]string, empty bool) jet.VarMap {
	vars := jet.VarMap{}
	str := func(a jet.Arguments, i int) string {
		v := a.Get(i)
		if !v.IsValid() {
			return ""
		}
		return fmt.Sprint(v.Interface())
	}
	none := reflect.ValueOf("")
	vars.SetFunc("let", func(a jet.Arguments) reflect.Value { a.Runtime().Let(str(a, 0), str(a, 1)); return none })
	vars.SetFunc("set", func(a jet.Arguments) reflect.Value {
		if err := a.Runtime().Set(str(a, 0), str(a, 1)); err != nil {
			panic(err)
		}
		return none
	})
	vars.SetFunc("letnil", func(a jet.Arguments) reflect.Value { a.Runtime().Let(str(a, 0), nil); return none })
	vars.SetFunc("setorlet", func(a jet.Arguments) reflect.Value { a.Runtime().SetOrLet(str(a, 0), str(a, 1)); return none })
	vars.SetFunc("letglobal", func(a jet.Arguments) reflect.Value { a.Runtime().LetGlobal(str(a, 0), str(a, 1)); return none })
	vars.SetFunc("resolve", func(a jet.Arguments) reflect.Value { return a.Runtime().Resolve(str(a, 0)) })
	vars.SetFunc("ctx", func(a jet.Arguments) reflect.Value { return a.Runtime().Context() })
	vars.SetFunc("resolvekind", func(a jet.Arguments) reflect.Value {
		return reflect.ValueOf(a.Runtime().Resolve(str(a, 0)).Kind().String())
	})
	vars.SetFunc("kindof", func(a jet.Arguments) reflect.Value { return reflect.ValueOf(a.Get(0).Kind().String()) })
	vars.SetFunc("setv", func(a jet.Arguments) reflect.Value {
		if err := a.Runtime().Set(str(a, 0), a.Get(1).Interface()); err != nil {
			panic(err)
		}
		return none
	})
	vars.Set("iv3", 3).Set("iv0", 0).Set("sv", "7").Set("bv", true)
	vars.Set("rv", "rv0")
	vars.Set("nilm", map[string]int(nil)).Set("nils", []string(nil)).Set("nilp", (*int)(nil))
	vars.Set("ifs", []interface{}{"ia", 7})
	vars.Set("ifm", map[string]interface{}{"only": "mv"})
	vars.SetFunc("yieldblock", func(a jet.Arguments) reflect.Value {
		var ctx interface{}
		if v := a.Get(1); v.IsValid() {
			ctx = v.Interface()
		}
		a.Runtime().YieldBlock(str(a, 0), ctx)
		return none
	})
	vars.Set("probe", func(id string) string { *log = append(*log, id); return "" })
	return vars
}

var c18directed = []struct{ src, want string }{
	{`{{ if true }}{{ x := "inner" }}{{ letglobal("x", "global") }}[{{ x }}]{{ end }}[{{ x }}]`, "[inner][global]"},
	{`{{ range i := ints(0, 2) }}{{ x := "loop" }}{{ letglobal("x", "G") }}({{ x }}){{ end }}({{ x }})`, "(loop)(loop)(G)"},
	{`{{ block b(x="param") }}{{ letglobal("x", "BG") }}<{{ x }}>{{ end }}[{{ x }}]`, "<param>[BG]"},
	{`{{ try }}{{ x := "t" }}{{ letglobal("x", "TG") }}<{{ x }}>{{ end }}[{{ x }}]`, "<t>[TG]"},
	{`{{ if true }}{{ x := "a" }}{{ if true }}{{ x := "b" }}{{ letglobal("x", "G2") }}{{ x }}{{ end }}{{ x }}{{ end }}{{ x }}`, "baG2"},
	{`{{ if true }}{{ rv := "shadow" }}{{ letglobal("rv", "RG") }}{{ rv }}{{ end }}|{{ rv }}`, "shadow|RG"},
}

var c18twins = []struct{ name, api, syn string }{
	// YieldBlock of a parameterless block opens no scope, like {{yield b()}}: what a function called from the block
	// declares with Let lives in the innermost scope open at the call site
	{"let-inside-a-yielded-block", `{{ import "/lib.jet" }}{{ if true }}{{ s := 0 }}{{ yieldblock("b", nil) }}[{{ isset(made) ? made : "unset" }}]{{ end }}[{{ isset(made) ? made : "unset" }}]`,
		`{{ import "/lib.jet" }}{{ if true }}{{ s := 0 }}{{ yield b() }}[{{ isset(made) ? made : "unset" }}]{{ end }}[{{ isset(made) ? made : "unset" }}]`},
	{"let-inside-a-block-yielded-with-context-in-a-range", `{{ import "/lib.jet" }}{{ range i := ints(0, 2) }}{{ isset(made) ? "S" : "U" }}{{ yieldblock("b", "c") }}{{ end }}`,
		`{{ import "/lib.jet" }}{{ range i := ints(0, 2) }}{{ isset(made) ? "S" : "U" }}{{ yield b() "c" }}{{ end }}`},
	{"set-inside-a-yielded-block", `{{ import "/lib.jet" }}{{ outerv := "o" }}{{ if true }}{{ yieldblock("bs", nil) }}{{ end }}[{{ outerv }}]`,
		`{{ import "/lib.jet" }}{{ outerv := "o" }}{{ if true }}{{ yield bs() }}{{ end }}[{{ outerv }}]`},
	// Set rebinds like '=', whatever the variable held before and however close the new value is to it
	{"set-int-variable-to-a-float-with-the-same-integral-part", `{{ setv("iv3", 3.5) }}{{ iv3 }}|{{ iv3 * 2 }}|{{ setv("iv0", 0.75) }}{{ iv0 }}|{{ x := len("a") }}{{ setv("x", 1.9) }}{{ x }}`,
		`{{ iv3 = 3.5 }}{{ iv3 }}|{{ iv3 * 2 }}|{{ iv0 = 0.75 }}{{ iv0 }}|{{ x := len("a") }}{{ x = 1.9 }}{{ x }}`},
	{"set-variable-to-an-equal-looking-value-of-another-type", `{{ setv("iv3", "3") }}{{ iv3 + "x" }}|{{ setv("sv", 7) }}{{ sv + 1 }}|{{ setv("bv", 1) }}{{ bv + 1 }}`,
		`{{ iv3 = "3" }}{{ iv3 + "x" }}|{{ sv = 7 }}{{ sv + 1 }}|{{ bv = 1 }}{{ bv + 1 }}`},
}

func c18n(tier string) int {
	if tier == "thorough" {
		return 1000000
	}
	return 20000
}

func c18run(c *fw.Ctx, idx int) {
	r := c.Rand(idx, "c18")
	if idx%4 == 3 {
		c18args(c, idx, r)
		return
	}
	if idx%4 == 0 && idx/4 < len(c18directed) {
		// LetGlobal has no syntax twin where an inner scope declares the same name: judged against the stated meaning
		d := c18directed[idx/4]
		c.Begin(idx, map[string]interface{}{"directed": "LetGlobal binds in the outermost template scope, whatever is declared further in", "template": d.src})
		defer c.End()
		var log []string
		res := jx.Run(map[string]string{"/main.jet": d.src, "/inc.jet": `{{ x := "inc" }}{{ letglobal("x", "IG") }}<{{ x }}>`}, "/main.jet", c18vars(&log, false), "root-ctx", jx.NoEscape)
		c.Eval(1)
		c.Count("directed_letglobal_cases", 1)
		if res.Failed() || res.Out != d.want {
			c.Violation(fmt.Sprintf("c18:directed-letglobal:%d", idx/4), "", fmt.Sprintf("%s rendered %s, want %q", d.src, res, d.want))
			return
		}
		c.Distinct(fmt.Sprintf("directed-letglobal|%d", idx/4))
		return
	}
	if k := idx/4 - len(c18directed); idx%4 == 0 && k >= 0 && k < len(c18twins) {
		// directed twins: the API form and the syntax form of one template render the same
		d := c18twins[k]
		c.Begin(idx, map[string]interface{}{"directed_twin": d.name, "api_form": d.api, "syntax_form": d.syn})
		defer c.End()
		lib := map[string]string{"/lib.jet": `{{ block b() }}<{{ let("made", "yes") }}>{{ end }}{{ block bs() }}<{{ set("outerv", "set-in-block") }}>{{ end }}`}
		run := func(src string) jx.Res {
			var log []string
			files := map[string]string{"/main.jet": src}
			for k, v := range lib {
				files[k] = v
			}
			return jx.Run(files, "/main.jet", c18vars(&log, false), "root-ctx", jx.NoEscape)
		}
		ra, rb := run(d.api), run(d.syn)
		c.Eval(2)
		c.Count("directed_twins", 1)
		if ra.Failed() || rb.Failed() || ra.Out != rb.Out || ra.Out == "" {
			c.Violation("c18:directed-twin:"+d.name, "", fmt.Sprintf("API form rendered    %s\nsyntax form rendered %s", ra, rb))
			return
		}
		c.Distinct("directed-twin|" + d.name)
		return
	}
	g := &c18gen{r: r, feat: map[string]bool{}, allowFail: idx%2 == 0}
	g.files = [2]map[string]string{{}, {}}
	g.scopes = []map[string]bool{{"rv": true}}
	// "cell" blocks that render the content of whoever is being rendered: yielded (from Go or from the template)
	// inside a block that was itself yielded with content, they show that content
	for i := 0; i < idx%3; i++ {
		name := fmt.Sprintf("cell%d", i+1)
		g.both("{{block " + name + "()}}<" + name + ":{{yield content}}>{{end}}")
		g.blocks = append(g.blocks, name)
	}
	// the syntax twin declares the "globals" up front at the root; generation order fixes their names
	g.list()
	for _, gn := range g.globals {
		g.both(fmt.Sprintf(`[end %s={{ %s }}]`, gn, gn))
	}
	g.both(`[end rv={{ rv }}]`)
	pre := ""
	for _, gn := range g.globals {
		pre += fmt.Sprintf(`{{ %s := "unset" }}`, gn)
	}
	g.files[0]["/main.jet"] = g.a.String()
	g.files[1]["/main.jet"] = pre + g.b.String()
	c.Begin(idx, map[string]interface{}{"api_form": g.files[0], "syntax_form": g.files[1]})
	defer c.End()
	run := func(files map[string]string) (jx.Res, []string) {
		var log []string
		vars := c18vars(&log, false)
		res := jx.Run(files, "/main.jet", vars, "root-ctx", jx.NoEscape)
		return res, log
	}
	ra, la := run(g.files[0])
	rb, lb := run(g.files[1])
	c.Eval(2)
	c.Count("twins", 1)
	var feats []string
	for _, k := range []string{"let-nil", "let", "set", "set-undeclared", "setorlet", "resolve", "context", "yieldblock", "yieldblock-ctx", "letglobal", "in-if", "in-range", "in-block", "in-include", "in-try", "below-content", "resolve-loop-var", "set-builtin-name", "yieldblock-typed-nil-ctx", "block-declared-with-context"} {
		if g.feat[k] {
			feats = append(feats, k)
			c.Count("feature:"+k, 1)
		}
	}
	sig := "c18:twin:" + strings.Join(feats, "+")
	if len(sig) > 90 {
		sig = sig[:90]
	}
	switch {
	case ra.Panic != nil || rb.Panic != nil || ra.ParseErr != nil || rb.ParseErr != nil:
		c.Violation(sig+":panic-or-parse", "", fmt.Sprintf("api: %s\nsyntax: %s", ra, rb))
		return
	case (ra.Err == nil) != (rb.Err == nil) || ra.Out != rb.Out:
		c.Violation(sig+":differ", "", fmt.Sprintf("API form rendered    %s\nsyntax form rendered %s", ra, rb))
		return
	case fmt.Sprint(la) != fmt.Sprint(lb):
		c.Violation(sig+":block-renderings-differ", "", fmt.Sprintf("block bodies rendered: API form %v, syntax form %v", la, lb))
		return
	}
	if len(feats) >= 3 {
		c.Distinct(strings.Join(feats, ","))
	}
	if idx%499 == 0 {
		c.Sample(map[string]interface{}{"api_form": g.files[0], "syntax_form": g.files[1], "output": ra.Out, "hooks": hook.Available})
	}
}

// ---- Arguments API versus a reflected function ----

func c18args(c *fw.Ctx, idx int, r *rand.Rand) {
	// argument expressions: existing values, a missing identifier (only for IsSet), the piped value
	// (exec("/pipe.jet") evaluates a pipeline of its own while the arguments of the outer call are being read)
	exist := []string{`"s1"`, `sv`, `7`, `iv`, `m.k`, `xs[1]`, `exec("/pipe.jet")`}
	n := 1 + r.Intn(3)
	args := make([]string, n)
	for i := range args {
		args[i] = exist[r.Intn(len(exist))]
	}
	forms := map[string]string{"plain": "F(" + strings.Join(args, ", ") + ")"}
	if n > 1 {
		forms["piped"] = args[0] + " | F: " + strings.Join(args[1:], ", ")
	} else {
		forms["piped"] = args[0] + " | F"
	}
	for k := range args {
		w := append([]string{}, args...)
		w[k] = "_"
		forms[fmt.Sprintf("slot%d", k)] = args[k] + " | F(" + strings.Join(w, ", ") + ")"
	}
	c.Begin(idx, map[string]interface{}{"arguments": args, "forms": forms})
	defer c.End()
	mk := func() jet.VarMap {
		vars := jet.VarMap{}
		vars.Set("sv", "strvar").Set("iv", 42).Set("m", map[string]string{"k": "mk"}).Set("xs", []string{"x0", "x1"})
		render := func(vs []reflect.Value) string {
			var p []string
			for _, v := range vs {
				p = append(p, fmt.Sprint(v.Interface()))
			}
			return strings.Join(p, ",")
		}
		// reflected reference: receives interface{} parameters positionally
		vars.Set("R1", func(a interface{}) string { return render([]reflect.Value{reflect.ValueOf(a)}) })
		vars.Set("R2", func(a, b interface{}) string { return render([]reflect.Value{reflect.ValueOf(a), reflect.ValueOf(b)}) })
		vars.Set("R3", func(a, b, c interface{}) string {
			return render([]reflect.Value{reflect.ValueOf(a), reflect.ValueOf(b), reflect.ValueOf(c)})
		})
		vars.SetFunc("J", func(a jet.Arguments) reflect.Value {
			var vs []reflect.Value
			for i := 0; i < a.NumOfArguments(); i++ {
				vs = append(vs, a.Get(i))
			}
			return reflect.ValueOf(render(vs))
		})
		vars.SetFunc("JN", func(a jet.Arguments) reflect.Value { return reflect.ValueOf(a.NumOfArguments()) })
		// reads behind the last argument (the usual way to probe an optional trailing argument): no value, no failure
		vars.SetFunc("JB", func(a jet.Arguments) reflect.Value {
			n := a.NumOfArguments()
			return reflect.ValueOf(fmt.Sprintf("%d:%v%v%v", n, a.Get(n).IsValid(), a.Get(n+1).IsValid(), a.Get(n+5).IsValid()))
		})
		vars.SetFunc("JS", func(a jet.Arguments) reflect.Value {
			s := ""
			for i := -1; i <= a.NumOfArguments(); i++ {
				if a.IsSet(i) {
					s += "1"
				} else {
					s += "0"
				}
			}
			return reflect.ValueOf(s)
		})
		vars.SetFunc("JP", func(a jet.Arguments) reflect.Value {
			ptrs := make([]interface{}, a.NumOfArguments())
			vals := make([]interface{}, a.NumOfArguments())
			for i := range ptrs {
				ptrs[i] = &vals[i]
			}
			if err := a.ParseInto(ptrs...); err != nil {
				panic(err)
			}
			var p []string
			for _, v := range vals {
				p = append(p, fmt.Sprint(v))
			}
			return reflect.ValueOf(strings.Join(p, ","))
		})
		// one pointer fewer than there are arguments: an error in every call form, as a reflected function with one
		// parameter fewer rejects the call
		vars.SetFunc("JPfew", func(a jet.Arguments) reflect.Value {
			ptrs := make([]interface{}, a.NumOfArguments()-1)
			vals := make([]interface{}, len(ptrs))
			for i := range ptrs {
				ptrs[i] = &vals[i]
			}
			if err := a.ParseInto(ptrs...); err != nil {
				panic(err)
			}
			return reflect.ValueOf(fmt.Sprint("parsed ", vals))
		})
		return vars
	}
	exec := func(src, fn string) jx.Res {
		return jx.Run(map[string]string{"/t.jet": "{{ " + strings.ReplaceAll(src, "F", fn) + " }}", "/pipe.jet": `{{ "Q" | lower }}{{ return "ret" }}`}, "/t.jet", mk(), nil, jx.NoEscape)
	}
	ref := exec(forms["plain"], fmt.Sprintf("R%d", n))
	if ref.Failed() {
		c.Violation("c18:args:reference-failed", "", ref.String())
		return
	}
	for name, src := range forms {
		kind := name
		if strings.HasPrefix(name, "slot") {
			kind = "slot"
		}
		rr := exec(src, fmt.Sprintf("R%d", n))
		gj := exec(src, "J")
		gn := exec(src, "JN")
		gp := exec(src, "JP")
		gs := exec(src, "JS")
		gb := exec(src, "JB")
		c.Eval(6)
		if gb.Failed() || gb.Out != fmt.Sprintf("%d:falsefalsefalse", n) {
			c.Violation("c18:args:Get-behind-last-argument:"+kind, "", fmt.Sprintf("%s: Get(n), Get(n+1), Get(n+5) with n=NumOfArguments gave %s, want \"%d:falsefalsefalse\"", src, gb, n))
			return
		}
		if rr.Failed() || rr.Out != ref.Out {
			c.Violation("c18:args:reflected-form-differs:"+kind, "", fmt.Sprintf("%s with the reflected function: %s; plain call: %q", src, rr, ref.Out))
			return
		}
		if gj.Failed() || gj.Out != ref.Out {
			c.Violation("c18:args:Get:"+kind, "", fmt.Sprintf("%s: Arguments.Get presents %s, the reflected function receives %q", src, gj, ref.Out))
			return
		}
		if gn.Failed() || gn.Out != fmt.Sprint(n) {
			c.Violation("c18:args:NumOfArguments:"+kind, "", fmt.Sprintf("%s: NumOfArguments = %s, the reflected function receives %d", src, gn, n))
			return
		}
		if gp.Failed() || gp.Out != ref.Out {
			c.Violation("c18:args:ParseInto:"+kind, "", fmt.Sprintf("%s: ParseInto presents %s, the reflected function receives %q", src, gp, ref.Out))
			return
		}
		if n >= 2 {
			few, rfew := exec(src, "JPfew"), exec(src, fmt.Sprintf("R%d", n-1))
			c.Eval(2)
			if few.Panic != nil || few.Err == nil || rfew.Err == nil {
				c.Violation("c18:args:ParseInto-with-too-few-pointers:"+kind, "", fmt.Sprintf("%s: ParseInto with %d pointers for %d arguments: %s; a reflected function with %d parameters: %s", src, n-1, n, few, n-1, rfew))
				return
			}
		}
		wantSet := "0" + strings.Repeat("1", n) + "0"
		if gs.Failed() || gs.Out != wantSet {
			c.Violation("c18:args:IsSet:"+kind, "", fmt.Sprintf("%s: IsSet(-1..%d) = %s, want %s", src, n, gs, wantSet))
			return
		}
	}
	// IsSet with an unset argument at a random position (other than the piped one)
	if n >= 2 {
		k := r.Intn(n)
		p := r.Intn(n)
		if p == k {
			p = (k + 1) % n
		}
		w := append([]string{}, args...)
		w[k] = "missingident"
		w[p] = "_"
		src := args[p] + " | JS(" + strings.Join(w, ", ") + ")"
		want := []byte("0" + strings.Repeat("1", n) + "0")
		want[1+k] = '0'
		gs := jx.Run(map[string]string{"/t.jet": "{{ " + src + " }}", "/pipe.jet": `{{ "Q" | lower }}{{ return "ret" }}`}, "/t.jet", mk(), nil, jx.NoEscape)
		c.Eval(1)
		if gs.Failed() || gs.Out != string(want) {
			c.Violation("c18:args:IsSet-positions:slot", "", fmt.Sprintf("%s: IsSet(-1..%d) = %s, want %s (argument %d is an unknown identifier, argument %d is the piped value)", src, n, gs, want, k, p))
			return
		}
	}
	// a first argument that evaluates to no value at all (nil literal, absent map key) keeps its position however it is handed over
	{
		inv := []string{"nil", "m.zz"}[r.Intn(2)]
		rest := args[1:]
		tail := strings.Join(rest, ", ")
		plain := "JX(" + strings.Join(append([]string{inv}, rest...), ", ") + ")"
		alts := map[string]string{"piped-call": inv + " | JX(" + tail + ")", "slot0": inv + " | JX(" + strings.Join(append([]string{"_"}, rest...), ", ") + ")"}
		if len(rest) > 0 {
			alts["piped-prefix"] = inv + " | JX: " + tail
		} else {
			alts["piped-bare"] = inv + " | JX"
		}
		vars := func() jet.VarMap {
			v := mk()
			v.SetFunc("JX", func(a jet.Arguments) reflect.Value {
				out := fmt.Sprintf("n=%d", a.NumOfArguments())
				for i := 0; i < a.NumOfArguments(); i++ {
					g := a.Get(i)
					switch {
					case !g.IsValid():
						out += fmt.Sprintf(";%d:<none>", i) // (IsSet of a nil literal is judged on the expression, of a piped nil on the value: not compared)
					default:
						out += fmt.Sprintf(";%d:%v set=%v", i, g.Interface(), a.IsSet(i))
					}
				}
				return reflect.ValueOf(out)
			})
			return v
		}
		files := func(src string) map[string]string {
			return map[string]string{"/t.jet": "{{ " + src + " }}", "/pipe.jet": `{{ "Q" | lower }}{{ return "ret" }}`}
		}
		ref := jx.Run(files(plain), "/t.jet", vars(), nil, jx.NoEscape)
		c.Eval(1)
		if !ref.Failed() {
			for name, src := range alts {
				got := jx.Run(files(src), "/t.jet", vars(), nil, jx.NoEscape)
				c.Eval(1)
				c.Count("invalid_first_argument_forms", 1)
				if got.Failed() || got.Out != ref.Out {
					c.Violation("c18:args:invalid-value-position:"+name, "", fmt.Sprintf("%s presents %s; the plain call %s presents %q", src, got, plain, ref.Out))
					return
				}
			}
		}
	}
	c.Count("argument_shapes", len(forms))
	c.Distinct(fmt.Sprintf("args|%d|%v", n, args))
}

func init() {
	fw.Register(&fw.Property{
		ID:        "C18",
		Technique: "differential twins: the same program written with custom functions calling the Runtime/Arguments API and with template syntax must render identically (output, errors, block rendering log)",
		Rule: "3/4 of the cases: a random program over the names x,y,z whose operations are emitted twice — Let/Set/SetOrLet/LetGlobal/Resolve/Context/YieldBlock called from jet.Funcs versus :=, =, identifiers, '.', {{yield b() ctx}} — nested up to 3 deep in if, range (2 iterations), block definitions, included templates (with/without context), try, and below blocks yielded with content (YieldBlock of a block that renders 'yield content'); " +
			"every list first opens its scope so Let and := agree; Set on an undeclared name must fail in both forms; LetGlobal'd names are printed right after the call, after the enclosing constructs ended and at the end of the template; block bodies log each rendering; " +
			"1/4: call shapes (plain, piped, slot at every index) with 1-3 arguments given to a reflected function and to jet.Funcs reading Get(i), NumOfArguments, IsSet(-1..n) and ParseInto: values and positions must match what the reflected function receives, incl. IsSet with an unknown identifier next to a slot; " +
			"non-trivial = >=3 API features/contexts in one twin, or any argument shape; distinct by feature set / argument list Since wave 8: six directed LetGlobal cases with the name declared in an inner scope (expected rendering spelt out).",
		Assumptions: []string{"Let twins only where the enclosing list has already opened a scope (DESIGN 2.4)", "blocks yielded through YieldBlock have no parameters"},
		NCases:      c18n,
		RunCase:     c18run,
		MinDistinct: 150,
	})
}
