package props

import (
	"fmt"
	"reflect"
	"sort"
	"strings"

	"github.com/CloudyKit/jet/v6"
	"github.com/CloudyKit/jet/v6/utils"
	"verifh/internal/fw"
	"verifh/internal/tgen"
)

// C20: utils.Walk visits every statement and expression node exactly once and never panics.

var c20must = map[string]bool{
	"TextNode": true, "ActionNode": true, "IfNode": true, "RangeNode": true, "BlockNode": true, "YieldNode": true,
	"IncludeNode": true, "TryNode": true, "ReturnNode": true,
	"AdditiveExprNode": true, "MultiplicativeExprNode": true, "ComparativeExprNode": true, "NumericComparativeExprNode": true,
	"LogicalExprNode": true, "CallExprNode": true, "NotExprNode": true, "TernaryExprNode": true, "IndexExprNode": true,
	"SliceExprNode": true, "IdentifierNode": true, "FieldNode": true, "ChainNode": true, "UnderscoreNode": true,
	"NilNode": true, "StringNode": true, "NumberNode": true, "BoolNode": true,
}
var c20optional = map[string]bool{"ListNode": true, "PipeNode": true, "CommandNode": true, "SetNode": true, "catchNode": true, "BlockParameterList": true}

type c20node struct {
	typ      string
	optional bool
	path     string
}

var nodeIface = reflect.TypeOf((*jet.Node)(nil)).Elem()

// c20collect walks the tree by reflection, independent of utils.Walk, and records every node pointer.
func c20collect(v reflect.Value, path string, optional bool, out map[uintptr]*c20node, depth int) {
	if depth > 200000 {
		return
	}
	switch v.Kind() {
	case reflect.Interface:
		if !v.IsNil() {
			c20collect(v.Elem(), path, optional, out, depth+1)
		}
	case reflect.Ptr:
		if v.IsNil() {
			return
		}
		e := v.Elem()
		if e.Kind() != reflect.Struct {
			return
		}
		name := e.Type().Name()
		if c20must[name] || c20optional[name] {
			p := v.Pointer()
			if n, seen := out[p]; seen {
				n.path += " & " + path // reachable along two paths (aliasing): still one node
				return
			}
			out[p] = &c20node{typ: name, optional: optional || c20optional[name], path: path}
		}
		c20collect(e, path, false, out, depth+1)
	case reflect.Struct:
		t := v.Type()
		if t.Name() == "Template" || t.Name() == "Set" {
			return
		}
		for i := 0; i < v.NumField(); i++ {
			f := t.Field(i)
			if f.PkgPath != "" && !f.Anonymous {
				continue
			}
			opt := false
			if t.Name() == "catchNode" && f.Name == "Err" {
				opt = true // the catch variable is a declaration, not an expression
			}
			c20collect(v.Field(i), path+"."+f.Name, opt, out, depth+1)
		}
	case reflect.Slice:
		for i := 0; i < v.Len(); i++ {
			c20collect(v.Index(i), fmt.Sprintf("%s[%d]", path, i), optional, out, depth+1)
		}
	}
}

func c20n(tier string) int {
	if tier == "thorough" {
		return 1000000
	}
	return 20000
}

var c20directed = []string{
	`{{include "x"}}`, `{{include "x" .}}`, `{{include a + b c[1:]}}`,
	`{{try}}a{{catch e}}{{e}}{{end}}`, `{{try}}a{{catch}}b{{end}}`, `{{try}}{{x}}{{end}}`,
	`{{return 1}}`, `{{return a[1:2]}}`,
	`{{ 1 | f(_, 2) }}`, `{{ x | f(_) | g(a, _) }}`,
	`{{ s[1:] }}{{ s[:1] }}{{s[:]}}{{s[a:b]}}`, `{{ -x }}{{ +x }}{{ !x }}{{ not x }}`,
	`{{block b()}}{{yield content}}{{end}}`, `{{block b(p=1, q) .X}}{{yield content .Y}}{{content}}c{{.Z}}{{end}}`,
	`{{yield b(p=1, 2, x) .C content}}{{.D}}{{end}}`,
	`{{range i, v := a.B(1)[2]}}{{i}}{{else}}{{v}}{{end}}`, `{{range v := x}}{{end}}`, `{{range x}}{{.}}{{end}}`, `{{range i, v = x}}{{end}}`,
	`{{if a := 1; a}}b{{else if c}}d{{else}}e{{end}}`,
	`{{ a ? b : c ? d : e }}`, `{{ v, ok := m["k"] }}{{ _ := f() }}{{ a, b = b, a }}`,
	`{{ (a + b).C }}{{ a.b.c }}{{ .A.B }}{{ a["x"].y }}`, `{{ f: 1, 2 | g: 3 | .H }}`,
	`{{ nil }}{{ true }}{{ "s" }}{{ 1.5 }}{{ 'c' }}` + "{{ `r` }}",
	`{{ x = 1; x }}{{ y := 2; y | f }}`,
	// textually identical definitions are still two subtrees
	`{{if x}}{{block b()}}same {{ a + 1 }}{{end}}{{else}}{{block b()}}same {{ a + 1 }}{{end}}{{end}}`,
	`{{block c(p=1)}}{{p}}{{end}}{{range xs}}{{block c(p=1)}}{{p}}{{end}}{{end}}{{ a + 1 }}{{ a + 1 }}{{yield c(p=2)}}{{yield c(p=2)}}`,
	`{{include "x" user}}{{include "y" first + second}}{{include "z" .}}{{include "w" a.b[1]}}`,
}

// deep trees: a long left-associative chain and deeply nested control structures (every node still exactly once)
func init() {
	var sum, nest, close, mixed, mclose strings.Builder
	for i := 0; i < 400; i++ {
		if i > 0 {
			sum.WriteString(" + ")
		}
		fmt.Fprintf(&sum, "v%d", i)
	}
	for i := 0; i < 150; i++ {
		fmt.Fprintf(&nest, "{{if c%d}}t%d", i, i)
		close.WriteString("{{end}}")
	}
	for i := 0; i < 90; i++ {
		switch i % 3 {
		case 0:
			fmt.Fprintf(&mixed, "{{range r%d}}", i)
		case 1:
			mixed.WriteString("{{try}}")
		default:
			fmt.Fprintf(&mixed, "{{block b%d()}}", i)
		}
		mclose.WriteString("{{end}}")
	}
	c20directed = append(c20directed,
		"{{ "+sum.String()+" }}",
		nest.String()+"{{ leaf }}"+close.String(),
		mixed.String()+"{{ leaf | f(1, _) }}"+mclose.String(),
		"{{ x"+strings.Repeat(".f", 300)+" }}{{ a"+strings.Repeat("[1]", 250)+" }}{{ "+strings.Repeat("(", 220)+"z"+strings.Repeat(")", 220)+" }}{{ "+strings.Repeat("!", 230)+"b }}",
	)
}

func c20run(c *fw.Ctx, idx int) {
	r := c.Rand(idx, "c20")
	var src string
	d := delimCfgs[0]
	class := "generated"
	if idx < len(c20directed) {
		src = c20directed[idx]
		class = "directed"
	} else {
		if r.Intn(4) == 0 {
			d = delimCfgs[r.Intn(len(delimCfgs))]
		}
		g := tgen.New(r, tg(d))
		g.MaxDepth = 3 + r.Intn(2)
		src = g.Template(2 + r.Intn(8))
		if r.Intn(4) == 0 {
			// one control action dropped in at an action boundary: mostly a parse error; whatever the parser does accept
			// is a "successfully parsed template" like any other and must be walkable
			class = "generated+stray-control-action"
			kw := []string{"catch", "catch e", "else", "end", "content", "else if x", "try", "if x", "range x", "block q()", "yield q() content", "return 1", "include \"x\""}[r.Intn(13)]
			var cuts []int
			for i := 0; i+len(d.L) <= len(src); i++ {
				if strings.HasPrefix(src[i:], d.L) {
					cuts = append(cuts, i)
				}
			}
			cuts = append(cuts, len(src))
			at := cuts[r.Intn(len(cuts))]
			src = src[:at] + d.L + kw + d.R + src[at:]
			if r.Intn(2) == 0 {
				src += d.L + "end" + d.R
			}
		}
	}
	c.Begin(idx, map[string]interface{}{"class": class, "delims": d.Name, "source": src})
	defer c.End()
	files := map[string]string{
		"/base.jet": "B" + d.L + "block main()" + d.R + "bm" + d.L + "end" + d.R,
		"/lib.jet":  d.L + "block lb()" + d.R + "l" + d.L + "end" + d.R,
	}
	loader := jet.NewInMemLoader()
	for k, v := range files {
		loader.Set(k, v)
	}
	set := jet.NewSet(loader, d.opts()...)
	t, err := set.Parse("/t.jet", src)
	if err != nil || t == nil || t.Root == nil {
		c.Count("rejected_by_parser", 1)
		return
	}
	c.Count("accepted_"+class, 1)
	want := map[uintptr]*c20node{}
	c20collect(reflect.ValueOf(t.Root), "Root", false, want, 0)
	visits := map[uintptr]int{}
	nilVisits := 0
	total := 0
	limit := 50*len(want) + 1000
	var pan interface{}
	// a template is walked twice: the second walk must see exactly what the first one saw
	for round := 0; round < 2 && pan == nil; round++ {
		if round == 1 {
			first := visits
			visits = map[uintptr]int{}
			total = 0
			defer func(first map[uintptr]int) {
				if pan == nil && len(first) != len(visits) {
					c.Violation("c20:second-walk-differs", "", fmt.Sprintf("first walk visited %d distinct nodes, a second walk of the same template %d", len(first), len(visits)))
				}
			}(first)
		}
		c20walk(t, &pan, &total, limit, len(want), &nilVisits, visits)
	}
	c.Count("walks", 1)
	c.Count("nodes", len(want))
	kinds := map[string]bool{}
	for _, n := range want {
		kinds[n.typ] = true
		c.Count("node_"+n.typ, 1)
	}
	var ks []string
	for k := range kinds {
		ks = append(ks, k)
	}
	sort.Strings(ks)
	if len(ks) >= 5 {
		c.Distinct(strings.Join(ks, ","))
	}
	if pan != nil {
		c.Violation("c20:panic:"+numRe.ReplaceAllString(firstLine(fmt.Sprint(pan)), "N"), "", fmt.Sprint(pan))
		return
	}
	if nilVisits > 0 {
		c.Violation("c20:nil-node-passed-to-visitor", "", fmt.Sprintf("%d nil nodes", nilVisits))
	}
	for p, n := range want {
		k := visits[p]
		switch {
		case k == 0 && !n.optional:
			c.Violation("c20:not-visited:"+n.typ, "", fmt.Sprintf("%s at %s was never visited", n.typ, n.path))
		case k > 1:
			c.Violation("c20:visited-twice:"+n.typ, "", fmt.Sprintf("%s at %s was visited %d times", n.typ, n.path, k))
		}
	}
	for p, k := range visits {
		if _, ok := want[p]; !ok && k > 0 {
			c.Count("visited_nodes_outside_reflective_walk", 1)
		}
	}
	if idx%499 == 0 || class == "directed" {
		c.Sample(map[string]interface{}{"source": src, "nodes": len(want), "visits": total})
	}
}

func firstLine(s string) string {
	if i := strings.IndexByte(s, '\n'); i >= 0 {
		s = s[:i]
	}
	if len(s) > 100 {
		s = s[:100]
	}
	return s
}

func init() {
	fw.Register(&fw.Property{
		ID:        "C20",
		Technique: "visit-multiset monitor: every node pointer found by an independent reflective traversal of the parsed tree must be handed to the visitor exactly once",
		Rule: "30 directed templates (4 of them deep: a 400-term sum, 150 nested ifs, 90 nested range/try/block, 220-300-fold chains, indexes, parentheses and negations; include, try/catch, return, '_' slots, slices with omitted bounds, unary forms, yield content with context, all range/if/set forms) and grammar-generated templates using every statement and expression kind (14 delimiter configurations), a quarter of them with one stray control action (catch, else, end, content, try, ...) dropped in at an action boundary - judged like any other template if the parser accepts it; " +
			"each accepted template is walked with a visitor that always descends via VisitorContext.Visit; oracle: no panic, no nil node, every statement/expression node visited exactly once, structural nodes (List, Pipe, Command, Set, catch, catch variable) at most once, visit count bounded; " +
			"non-trivial = tree contains at least 5 node kinds; distinct by the set of node kinds present",
		Assumptions: []string{"the reflective traversal over exported fields reaches every node of the tree"},
		NCases:      c20n,
		RunCase:     c20run,
		MinDistinct: 200,
	})
}

func c20walk(t *jet.Template, pan *interface{}, total *int, limit, nwant int, nilVisits *int, visits map[uintptr]int) {
	defer func() {
		if r := recover(); r != nil {
			*pan = r
		}
	}()
	utils.Walk(t, utils.VisitorFunc(func(vc utils.VisitorContext, node jet.Node) {
		*total++
		if *total > limit {
			panic(fmt.Sprintf("runaway walk: more than %d visits for %d nodes", limit, nwant))
		}
		if node == nil || (reflect.ValueOf(node).Kind() == reflect.Ptr && reflect.ValueOf(node).IsNil()) {
			*nilVisits++
			return
		}
		visits[reflect.ValueOf(node).Pointer()]++
		vc.Visit(node)
	}))
}
