package props

import (
	"fmt"
	"math"
	"math/rand"
	"strconv"
	"strings"

	"github.com/CloudyKit/jet/v6"
	"verifh/internal/fw"
	"verifh/internal/jx"
)

// C04: precedence, associativity, typing and laziness of expressions.

type xkind int

const (
	xInt xkind = iota
	xFloat
	xStr
	xBool
)

type xval struct {
	k   xkind
	i   int64
	f   float64
	s   string
	b   bool
	raw bool // string literal spelt with back quotes
}

func (v xval) num() float64 {
	if v.k == xInt {
		return float64(v.i)
	}
	return v.f
}

func (v xval) truthy() bool {
	switch v.k {
	case xInt:
		return v.i != 0
	case xFloat:
		return v.f != 0
	case xStr:
		return v.s != ""
	}
	return v.b
}

func (v xval) sprint() string { // fmt.Sprint of the Go value
	switch v.k {
	case xInt:
		return fmt.Sprint(v.i)
	case xFloat:
		return fmt.Sprint(v.f)
	case xStr:
		return v.s
	}
	return fmt.Sprint(v.b)
}

// precedence levels (higher binds tighter)
const (
	pTernary = 1
	pLogical = 2
	pNot     = 3 // '!' scopes over a whole comparison
	pEq      = 4
	pRel     = 5
	pAdd     = 6
	pMul     = 7
	pUnary   = 8
	pPrimary = 9
)

type xnode struct {
	op      string // "lit","var","call","index","neg","not","bin","tern","paren"
	val     xval   // lit
	name    string // var / call name / index base
	arg     *xnode // call argument (value passed through), index
	id      string // probe id for calls
	bop     string
	l, r, c *xnode
}

func (n *xnode) prec() int {
	switch n.op {
	case "lit":
		if (n.val.k == xInt && n.val.i < 0) || (n.val.k == xFloat && n.val.f < 0) {
			return pUnary
		}
		return pPrimary
	case "var", "call", "index", "paren":
		return pPrimary
	case "neg":
		return pUnary
	case "not":
		return pNot
	case "tern":
		return pTernary
	}
	switch n.bop {
	case "*", "/", "%":
		return pMul
	case "+", "-":
		return pAdd
	case "<", "<=", ">", ">=":
		return pRel
	case "==", "!=":
		return pEq
	}
	return pLogical
}

type xstyle struct {
	tight  bool // no spaces around binary operators
	words  bool // and/or/not instead of && || !
	parens bool // redundant parentheses around some subtrees
	r      *rand.Rand
}

func litSrc(v xval) string {
	switch v.k {
	case xInt: // numeric literals are floats in jet: an "int literal" in the model is an integral float
		return strconv.FormatInt(v.i, 10)
	case xFloat:
		s := strconv.FormatFloat(v.f, 'f', -1, 64)
		if !strings.Contains(s, ".") {
			s += ".0"
		}
		return s
	case xStr:
		if v.raw && !strings.ContainsAny(v.s, "`\n") {
			return "`" + v.s + "`"
		}
		return strconv.Quote(v.s)
	}
	return fmt.Sprint(v.b)
}

func (n *xnode) src(st *xstyle, parentPrec int, rightSide bool) string {
	var s string
	switch n.op {
	case "lit":
		s = litSrc(n.val)
	case "var":
		s = n.name
	case "call":
		s = n.name + "(" + strconv.Quote(n.id)
		if n.arg != nil {
			s += ", " + n.arg.src(st, 0, false)
		}
		s += ")"
	case "index":
		s = n.name + "[" + n.arg.src(st, 0, false) + "]"
	case "paren":
		return "(" + n.l.src(st, 0, false) + ")"
	case "neg":
		inner := n.l.src(st, pPrimary, false)
		s = "-" + inner
	case "not":
		inner := n.l.src(st, pEq, false)
		if st.words {
			s = "not " + inner
		} else {
			s = "!" + inner
		}
	case "tern":
		// condition and then-branch are parenthesised when they are ternaries themselves; the else branch nests to the right
		s = n.c.src(st, pLogical, false) + " ? " + n.l.src(st, pLogical, false) + " : " + n.r.src(st, pTernary, true)
	case "bin":
		op := n.bop
		if st.words {
			switch op {
			case "&&":
				op = "and"
			case "||":
				op = "or"
			}
		}
		p := n.prec()
		ls := n.l.src(st, p, false)
		rs := n.r.src(st, p, true)
		sep := " "
		if st.tight && op != "and" && op != "or" && !strings.HasPrefix(rs, "-") && !strings.HasPrefix(rs, "!") && !strings.HasPrefix(rs, "not ") {
			sep = ""
		}
		s = ls + sep + op + sep + rs
	}
	need := false
	p := n.prec()
	switch {
	case p < parentPrec:
		need = true
	case p == parentPrec && rightSide && n.op == "bin":
		need = true // left-associative levels: a right operand of the same level needs parentheses
	case p == parentPrec && n.op == "tern" && !rightSide:
		need = true
	case n.op == "not" && parentPrec >= pNot && parentPrec != pLogical && parentPrec != 0 && parentPrec != pTernary:
		need = true
	}
	if !need && st.parens && st.r.Intn(4) == 0 {
		need = true
	}
	if need {
		return "(" + s + ")"
	}
	return s
}

type xenv struct {
	vars map[string]xval
	ints []int64
	strs []string
	log  []string
	fail string // model cannot decide (division by zero, unspecified typing)
}

func (e *xenv) eval(n *xnode) xval {
	switch n.op {
	case "lit":
		v := n.val
		if v.k == xInt { // a numeric literal is a float
			return xval{k: xFloat, f: float64(v.i)}
		}
		return v
	case "var":
		return e.vars[n.name]
	case "paren":
		return e.eval(n.l)
	case "call":
		e.log = append(e.log, n.id)
		if n.arg != nil {
			a := e.eval(n.arg)
			switch n.name {
			case "fi":
				return xval{k: xInt, i: int64(a.num())}
			case "ff":
				return xval{k: xFloat, f: a.num()}
			}
			return a
		}
		return e.vars["ret:"+n.id]
	case "index":
		k := e.eval(n.arg)
		i := int(k.num())
		if n.name == "si" {
			return xval{k: xInt, i: e.ints[i]}
		}
		return xval{k: xStr, s: e.strs[i]}
	case "neg":
		v := e.eval(n.l)
		if v.k == xInt {
			return xval{k: xInt, i: -v.i}
		}
		return xval{k: xFloat, f: -v.f}
	case "not":
		return xval{k: xBool, b: !e.eval(n.l).truthy()}
	case "tern":
		if e.eval(n.c).truthy() {
			return e.eval(n.l)
		}
		return e.eval(n.r)
	}
	switch n.bop {
	case "&&":
		l := e.eval(n.l)
		if !l.truthy() {
			return xval{k: xBool, b: false}
		}
		return xval{k: xBool, b: e.eval(n.r).truthy()}
	case "||":
		l := e.eval(n.l)
		if l.truthy() {
			return xval{k: xBool, b: true}
		}
		return xval{k: xBool, b: e.eval(n.r).truthy()}
	}
	l, r := e.eval(n.l), e.eval(n.r)
	switch n.bop {
	case "+", "-", "*", "/", "%":
		if l.k == xStr {
			if n.bop != "+" {
				e.fail = "string operand of arithmetic"
				return xval{}
			}
			return xval{k: xStr, s: l.s + r.sprint()}
		}
		if l.k == xBool || r.k == xBool || r.k == xStr {
			e.fail = "non-numeric operand"
			return xval{}
		}
		if n.bop == "%" && l.k == xInt && r.k == xInt {
			if r.i == 0 {
				e.fail = "modulo by zero"
				return xval{}
			}
			return xval{k: xInt, i: l.i % r.i} // exact integer arithmetic (values beyond 2^53 do not survive a float64 detour)
		}
		if n.bop == "%" {
			if l.num() != math.Trunc(l.num()) || r.num() != math.Trunc(r.num()) {
				e.fail = "% with non-integral operand"
				return xval{}
			}
			if int64(r.num()) == 0 {
				e.fail = "modulo by zero"
				return xval{}
			}
			m := int64(l.num()) % int64(r.num())
			if l.k == xInt && r.k == xInt {
				return xval{k: xInt, i: m}
			}
			return xval{k: xFloat, f: float64(m)}
		}
		if l.k == xInt && r.k == xInt {
			switch n.bop {
			case "+":
				return xval{k: xInt, i: l.i + r.i}
			case "-":
				return xval{k: xInt, i: l.i - r.i}
			case "*":
				return xval{k: xInt, i: l.i * r.i}
			case "/":
				if r.i == 0 {
					e.fail = "integer division by zero"
					return xval{}
				}
				return xval{k: xInt, i: l.i / r.i}
			}
		}
		a, b := l.num(), r.num()
		switch n.bop {
		case "+":
			return xval{k: xFloat, f: a + b}
		case "-":
			return xval{k: xFloat, f: a - b}
		case "*":
			return xval{k: xFloat, f: a * b}
		default:
			if b == 0 {
				e.fail = "float division by zero"
				return xval{}
			}
			return xval{k: xFloat, f: a / b}
		}
	case "<", "<=", ">", ">=":
		if l.k > xFloat || r.k > xFloat {
			e.fail = "non-numeric operand of a relational operator"
			return xval{}
		}
		var res bool
		if l.k == xInt && r.k == xInt {
			switch n.bop {
			case "<":
				res = l.i < r.i
			case "<=":
				res = l.i <= r.i
			case ">":
				res = l.i > r.i
			default:
				res = l.i >= r.i
			}
		} else {
			a, b := l.num(), r.num()
			switch n.bop {
			case "<":
				res = a < b
			case "<=":
				res = a <= b
			case ">":
				res = a > b
			default:
				res = a >= b
			}
		}
		return xval{k: xBool, b: res}
	case "==", "!=":
		var eq bool
		switch {
		case l.k <= xFloat && r.k <= xFloat:
			if l.k != r.k && (l.num() != math.Trunc(l.num()) || r.num() != math.Trunc(r.num())) {
				e.fail = "equality between an int and a non-integral float"
				return xval{}
			}
			eq = l.num() == r.num()
		case l.k == r.k && l.k == xStr:
			eq = l.s == r.s
		case l.k == r.k && l.k == xBool:
			eq = l.b == r.b
		default:
			e.fail = "equality between different kinds"
			return xval{}
		}
		if n.bop == "!=" {
			eq = !eq
		}
		return xval{k: xBool, b: eq}
	}
	e.fail = "unknown operator " + n.bop
	return xval{}
}

// ---- generator ----

type xgen struct {
	r    *rand.Rand
	vars map[string]xval
	goV  map[string]interface{}
	n    int
}

func (g *xgen) id() string { g.n++; return fmt.Sprintf("q%d", g.n) }

var xIntVars = []string{"i1", "i2", "i3", "i8", "i64", "dI"}
var xFloatVars = []string{"f1", "f2", "f32", "dF"}
var xStrVars = []string{"s1", "s2", "dS"}
var xBoolVars = []string{"bt", "bf"}

func newXgen(r *rand.Rand) *xgen {
	g := &xgen{r: r, vars: map[string]xval{}, goV: map[string]interface{}{}}
	nz := func() int64 {
		v := int64(r.Intn(19) - 9)
		if v == 0 {
			v = 3
		}
		return v
	}
	set := func(name string, v xval, goV interface{}) { g.vars[name] = v; g.goV[name] = goV }
	a, b, c := nz(), nz(), int64(r.Intn(7)-3)
	set("i1", xval{k: xInt, i: a}, int(a))
	set("i2", xval{k: xInt, i: b}, int(b))
	set("i3", xval{k: xInt, i: c}, int(c))
	d := nz()
	set("i8", xval{k: xInt, i: d}, int8(d))
	e := nz() * 1000003
	set("i64", xval{k: xInt, i: e}, int64(e))
	u := int64(r.Intn(9) + 1)
	set("u1", xval{k: xInt, i: u}, uint16(u))
	fs := []float64{-2.5, -0.5, 0.5, 1.5, 2.25, 3, -7.75, 0.25, 10}
	f1, f2 := fs[r.Intn(len(fs))], fs[r.Intn(len(fs))]
	set("f1", xval{k: xFloat, f: f1}, f1)
	set("f2", xval{k: xFloat, f: f2}, f2)
	f32 := []float32{0.5, -1.25, 2.75}[r.Intn(3)]
	set("f32", xval{k: xFloat, f: float64(f32)}, f32)
	ss := []string{"a", "", "zz", "x y", "<b>", "7"}
	s1, s2 := ss[r.Intn(len(ss))], ss[r.Intn(len(ss))]
	set("s1", xval{k: xStr, s: s1}, s1)
	set("s2", xval{k: xStr, s: s2}, s2)
	set("bt", xval{k: xBool, b: true}, true)
	set("bf", xval{k: xBool, b: false}, false)
	// data fields (accessed as .DI etc. are printed as dI ...: realised as variables as well as context fields)
	di := nz()
	set("dI", xval{k: xInt, i: di}, int(di))
	set("dF", xval{k: xFloat, f: -1.5}, -1.5)
	set("dS", xval{k: xStr, s: "d"}, "d")
	return g
}

func (g *xgen) pick(s []string) string { return s[g.r.Intn(len(s))] }

func (g *xgen) lit(k xkind) *xnode {
	switch k {
	case xInt:
		return &xnode{op: "lit", val: xval{k: xInt, i: int64(g.r.Intn(13) - 4)}}
	case xFloat:
		return &xnode{op: "lit", val: xval{k: xFloat, f: []float64{0.5, 1.5, -2.5, 2.25, 0.25, -0.75, 3.5}[g.r.Intn(7)]}}
	case xStr:
		return &xnode{op: "lit", val: xval{k: xStr, s: []string{"a", "", "b c", "k"}[g.r.Intn(4)], raw: g.r.Intn(3) == 0}}
	}
	return &xnode{op: "lit", val: xval{k: xBool, b: g.r.Intn(2) == 0}}
}

// leafInt yields an expression of Go integer kind (never a literal: literals are floats)
func (g *xgen) leafInt() *xnode {
	switch g.r.Intn(6) {
	case 0:
		return &xnode{op: "call", name: "fi", id: g.id(), arg: &xnode{op: "var", name: g.pick(xIntVars[:3])}}
	case 1:
		return &xnode{op: "index", name: "si", arg: &xnode{op: "lit", val: xval{k: xInt, i: int64(g.r.Intn(3))}}}
	}
	return &xnode{op: "var", name: g.pick(xIntVars)}
}

func (g *xgen) leafFloat() *xnode {
	switch g.r.Intn(5) {
	case 0:
		return g.lit(xFloat)
	case 1:
		return g.lit(xInt) // integral literal: still a float
	case 2:
		return &xnode{op: "call", name: "ff", id: g.id(), arg: &xnode{op: "var", name: g.pick(xFloatVars)}}
	}
	return &xnode{op: "var", name: g.pick(xFloatVars)}
}

// num generates a numeric expression; wantInt: keep it in Go integer kinds
func (g *xgen) num(depth int, wantInt bool) *xnode {
	if depth <= 0 || g.r.Intn(4) == 0 {
		if wantInt {
			return g.leafInt()
		}
		if g.r.Intn(2) == 0 {
			return g.leafInt()
		}
		return g.leafFloat()
	}
	switch k := g.r.Intn(10); {
	case k < 6:
		ops := []string{"+", "-", "*", "/", "%", "+", "-", "*"}
		op := ops[g.r.Intn(len(ops))]
		if op == "%" {
			wantInt = true
		}
		l := g.num(depth-1, wantInt)
		r := g.num(depth-1, wantInt)
		if g.r.Intn(6) == 0 && op != "-" {
			// an unsigned operand only on the right (jet converts to the left operand's kind; unsigned left operands
			// mixed with negative values are outside the statement)
			r = &xnode{op: "var", name: "u1"}
		}
		return &xnode{op: "bin", bop: op, l: l, r: r}
	case k == 6:
		return &xnode{op: "neg", l: g.negOperand(depth-1, wantInt)}
	case k == 7:
		return &xnode{op: "tern", c: g.boolean(depth - 1), l: g.num(depth-1, wantInt), r: g.num(depth-1, wantInt)}
	case k == 8:
		return &xnode{op: "paren", l: g.num(depth-1, wantInt)}
	}
	return g.num(0, wantInt)
}

// operand of unary minus: variable, call, index or parenthesised expression (a literal would just be a negative literal)
func (g *xgen) negOperand(depth int, wantInt bool) *xnode {
	switch g.r.Intn(3) {
	case 0:
		return &xnode{op: "paren", l: g.num(depth, wantInt)}
	case 1:
		if !wantInt {
			return &xnode{op: "var", name: g.pick(xFloatVars)}
		}
	}
	return g.leafInt()
}

func (g *xgen) str(depth int) *xnode {
	if depth <= 0 || g.r.Intn(3) == 0 {
		switch g.r.Intn(4) {
		case 0:
			return g.lit(xStr)
		case 1:
			return &xnode{op: "index", name: "ss", arg: &xnode{op: "lit", val: xval{k: xInt, i: int64(g.r.Intn(2))}}}
		case 2:
			return &xnode{op: "call", name: "fs", id: g.id(), arg: &xnode{op: "var", name: g.pick(xStrVars)}}
		}
		return &xnode{op: "var", name: g.pick(xStrVars)}
	}
	switch g.r.Intn(4) {
	case 0:
		return &xnode{op: "tern", c: g.boolean(depth - 1), l: g.str(depth - 1), r: g.str(depth - 1)}
	case 1:
		// string + anything printable appends its printed form; a compound right operand is parenthesised by the printer as needed
		var r *xnode
		switch g.r.Intn(4) {
		case 0:
			r = g.num(depth-1, g.r.Intn(2) == 0)
		case 1:
			r = g.boolean(depth - 1)
		default:
			r = g.str(depth - 1)
		}
		if r.prec() <= pAdd {
			r = &xnode{op: "paren", l: r}
		}
		return &xnode{op: "bin", bop: "+", l: g.str(depth - 1), r: r}
	}
	return &xnode{op: "bin", bop: "+", l: g.str(depth - 1), r: g.str(0)}
}

func (g *xgen) probeBool() *xnode {
	id := g.id()
	b := g.r.Intn(2) == 0
	g.vars["ret:"+id] = xval{k: xBool, b: b}
	name := "pf"
	if b {
		name = "pt"
	}
	return &xnode{op: "call", name: name, id: id}
}

func (g *xgen) boolean(depth int) *xnode {
	if depth <= 0 || g.r.Intn(5) == 0 {
		switch g.r.Intn(4) {
		case 0:
			return g.lit(xBool)
		case 1:
			return g.probeBool()
		}
		return &xnode{op: "var", name: g.pick(xBoolVars)}
	}
	switch k := g.r.Intn(12); {
	case k < 3:
		return &xnode{op: "bin", bop: g.pick([]string{"<", "<=", ">", ">="}), l: g.num(depth-1, g.r.Intn(2) == 0), r: g.num(depth-1, g.r.Intn(2) == 0)}
	case k < 5:
		op := g.pick([]string{"==", "!="})
		switch g.r.Intn(4) {
		case 0:
			return &xnode{op: "bin", bop: op, l: g.str(depth - 1), r: g.str(depth - 1)}
		case 1:
			return &xnode{op: "bin", bop: op, l: g.boolean(depth - 1), r: g.boolean(depth - 1)}
		case 2:
			return &xnode{op: "bin", bop: op, l: g.num(depth-1, true), r: g.num(depth-1, true)}
		}
		return &xnode{op: "bin", bop: op, l: g.num(depth-1, false), r: g.num(depth-1, false)}
	case k < 9:
		// logical connectives take operands of any kind (truthiness) and are lazy: probes show what ran
		any := func() *xnode {
			switch g.r.Intn(6) {
			case 0:
				return g.num(depth-1, g.r.Intn(2) == 0)
			case 1:
				return g.str(depth - 1)
			case 2:
				return g.probeBool()
			}
			return g.boolean(depth - 1)
		}
		return &xnode{op: "bin", bop: g.pick([]string{"&&", "||"}), l: any(), r: any()}
	case k == 9:
		return &xnode{op: "not", l: g.boolean(depth - 1)}
	case k == 10:
		return &xnode{op: "tern", c: g.boolean(depth - 1), l: g.boolean(depth - 1), r: g.boolean(depth - 1)}
	}
	return &xnode{op: "paren", l: g.boolean(depth - 1)}
}

func (n *xnode) shape(b *strings.Builder, depth int) {
	if n == nil || depth > 4 {
		return
	}
	switch n.op {
	case "bin":
		b.WriteString("(" + n.bop)
		n.l.shape(b, depth+1)
		n.r.shape(b, depth+1)
		b.WriteString(")")
	case "tern":
		b.WriteString("(?")
		n.c.shape(b, depth+1)
		n.l.shape(b, depth+1)
		n.r.shape(b, depth+1)
		b.WriteString(")")
	case "neg", "not":
		b.WriteString("(" + n.op)
		n.l.shape(b, depth+1)
		b.WriteString(")")
	case "paren":
		n.l.shape(b, depth)
	case "lit":
		b.WriteString(fmt.Sprintf("L%d", n.val.k))
	case "var":
		b.WriteString("v" + n.name[:1])
	default:
		b.WriteString(n.op[:1])
	}
}

func (n *xnode) ops() int {
	if n == nil {
		return 0
	}
	k := 0
	if n.op == "bin" || n.op == "tern" || n.op == "neg" || n.op == "not" {
		k = 1
	}
	return k + n.l.ops() + n.r.ops() + n.c.ops() + n.arg.ops()
}

func c04n(tier string) int {
	if tier == "thorough" {
		return 3000000
	}
	return 60000
}

var c04directed = []struct{ src, want string }{
	{`{{ (i1)-1 }}|{{ fi("a", i1)-1 }}|{{ si[0]-1 }}|{{ i1-1 }}|{{ i1*-1 }}|{{ (i1)+1 }}|{{ si[1]+1 }}`, ""},
	{`{{ 7/2 }}|{{ i7/i2 }}|{{ im7/i2 }}|{{ im7%i2 }}|{{ i7/2 }}|{{ 7.0/i2 }}|{{ i7%2 }}`, "3.5|3|-3|-1|3.5|3.5|1"},
	{`{{ bt ? 1 : 2 + 1 }}|{{ bf ? 1 : bf ? 2 : 3 }}|{{ bt ? 1 : bt ? 2 : 3 }}|{{ bf || bt && bf }}|{{ !i7 == 7 }}|{{ not i7 == 8 }}`, "1|3|1|false|false|true"},
	{`{{ 1 + 2 * 3 }}|{{ 10 - 4 - 3 }}|{{ 2 * 3 % 4 }}|{{ 1 + 2 < 4 }}|{{ 1 < 2 == true }}|{{ -i2 * 3 }}|{{ 24 / 4 / 2 }}`, "7|3|2|true|true|-6|3"},
	{`{{ "a" + 1 }}|{{ "a" + 1.5 }}|{{ "a" + true }}|{{ "a" + "b" + 2 }}|{{ "n" + i7 }}`, "a1|a1.5|atrue|ab2|n7"},
	{`{{ im2 <= -2.5 }}|{{ im2 > -2.5 }}|{{ im2 < -1.5 }}|{{ im2 >= -2.5 }}|{{ -2.5 < im2 }}`, "false|true|true|true|true"},
	// Go integers beyond 2^53 (ids, nanosecond timestamps) combine integrally: no detour through float64
	{`{{ big % i2 }}|{{ big / i2 }}|{{ big + i2 }}|{{ big - i7 }}|{{ big * i2 }}|{{ nanos % sec }}|{{ -big / i2 }}|{{ -i7 / i2 }}|{{ nanos / sec }}|{{ big % big1 }}`,
		"1|4503599627370496|9007199254740995|9007199254740986|18014398509481986|123456789|-4503599627370496|-3|1700000000|9007199254740993"},
	// every numeric literal is a float, also the neutral ones: x*1 and x/1 make the operation floating-point
	{`{{ i7 * 1 / i2 }}|{{ i7 * 1.0 / i2 }}|{{ i7 / 1 / i2 }}|{{ 1 * i7 / i2 }}|{{ i7 * 1 / i2 * i2 }}|{{ (i7 + 0) / i2 }}|{{ (i7 - 0.0) / i2 }}|{{ i7 / i2 * 1 }}|{{ im7 / 1.0 / i2 }}`, "3.5|3.5|3.5|3.5|7|3.5|3.5|3|-3.5"},
	{`{{ big == big1 }}|{{ big < big1 }}|{{ big1 > big }}|{{ big != big1 }}|{{ big1 - big }}|{{ (big1 - big) * i7 % i2 }}`, "false|true|true|true|1|1"},
	{`{{ big / one }}|{{ big / one % i2 }}|{{ big1 / one - big / one }}|{{ -big / one }}|{{ nanos / one % sec }}`, "9007199254740993|1|1|-9007199254740993|123456789"},
	// logical operators always yield true or false, however often they are stacked and whatever they are applied to
	{`{{ !!i7 }}|{{ not not i7 }}|{{ !(!i7) }}|{{ "v=" + !!i7 }}|{{ (!!i7) == true }}|{{ !!"" }}|{{ !!"s" }}|{{ !!!i7 }}|{{ !!(i7 - 7) }}|{{ !!1.5 }}`, "true|true|true|v=true|true|false|true|false|false|true"},
	// integral literals beyond the int64 range are floating-point operands like every other literal
	{`{{ i7 < 9223372036854775808 }}|{{ i7 * 9223372036854775808 == i7 * 9223372036854775808.0 }}|{{ 18446744073709551615 + 18446744073709551615 == 18446744073709551615.0 + 18446744073709551615.0 }}|{{ 9223372036854775808 > i2 }}|{{ i2 - 9223372036854775808 < 0 }}|{{ 0xFFFFFFFFFFFFFFFF > i7 }}`, "true|true|true|true|true|true"},
	// an unsigned Go integer on the left is an integer like any other: a floating-point right operand makes the operation floating-point
	{`{{ u3 * 1.5 }}|{{ u3 / 2.0 }}|{{ u3 * 0.5 }}|{{ u3 / 2 }}|{{ u8 * 2.5 }}|{{ u3 * f15 }}|{{ u64 / 4.0 }}|{{ u3 / u8 }}|{{ u3 * u8 }}`, "4.5|1.5|1.5|1.5|5|4.5|2.5|1|6"},
}

func c04run(c *fw.Ctx, idx int) {
	r := c.Rand(idx, "c04")
	if idx < len(c04directed) {
		d := c04directed[idx]
		c.Begin(idx, map[string]interface{}{"directed": d.src})
		defer c.End()
		vars := jet.VarMap{}
		vars.Set("i1", 5).Set("i7", 7).Set("i2", 2).Set("im7", -7).Set("im2", -2).Set("bt", true).Set("bf", false).Set("si", []int{9, 4})
		vars.Set("one", 1).Set("big", int64(9007199254740993)).Set("big1", int64(9007199254740994)).Set("nanos", int64(1700000000123456789)).Set("sec", int64(1000000000))
		vars.Set("fi", func(id string, v int) int { return v })
		vars.Set("u3", uint(3)).Set("u8", uint8(2)).Set("u64", uint64(10)).Set("f15", 1.5)
		res := jx.Run(map[string]string{"/t.jet": d.src}, "/t.jet", vars, nil, jx.NoEscape)
		want := d.want
		if want == "" {
			want = "4|4|8|4|-5|6|5"
		}
		if res.Failed() || res.Out != want {
			c.Violation(fmt.Sprintf("c04:directed-%d", idx), "", fmt.Sprintf("want %q got %s", want, res))
		}
		c.Distinct(fmt.Sprintf("directed%d", idx))
		return
	}
	g := newXgen(r)
	var tree *xnode
	switch idx % 4 {
	case 0:
		tree = g.num(4, idx%8 == 0)
	case 1:
		tree = g.boolean(4)
	case 2:
		tree = g.str(3)
	default:
		tree = g.boolean(3 + r.Intn(2))
	}
	env := &xenv{vars: g.vars, ints: []int64{3, -4, 6}, strs: []string{"p", "q"}}
	want := env.eval(tree)
	base := &xstyle{r: r}
	plain := tree.src(base, 0, false)
	c.Begin(idx, map[string]interface{}{"expression": plain})
	defer c.End()
	if env.fail != "" {
		c.Count("discarded:"+env.fail, 1)
		return
	}
	if want.k == xFloat && (math.IsInf(want.f, 0) || math.IsNaN(want.f) || math.Abs(want.f) > 1e15) {
		c.Count("discarded:float out of range", 1)
		return
	}
	variants := map[string]string{"plain": plain}
	variants["tight"] = tree.src(&xstyle{r: r, tight: true}, 0, false)
	variants["words"] = tree.src(&xstyle{r: r, words: true}, 0, false)
	variants["parens"] = tree.src(&xstyle{r: rand.New(rand.NewSource(int64(idx))), parens: true}, 0, false)
	for _, vn := range []string{"plain", "tight", "words", "parens"} {
		src := variants[vn]
		var log []string
		vars := jet.VarMap{}
		for k, v := range g.goV {
			vars.Set(k, v)
		}
		vars.Set("si", []int{3, -4, 6})
		vars.Set("ss", []string{"p", "q"})
		vars.Set("fi", func(id string, v int) int { log = append(log, id); return v })
		vars.Set("ff", func(id string, v float64) float64 { log = append(log, id); return v })
		vars.Set("fs", func(id string, v string) string { log = append(log, id); return v })
		vars.Set("pt", func(id string) bool { log = append(log, id); return true })
		vars.Set("pf", func(id string) bool { log = append(log, id); return false })
		res := jx.Run(map[string]string{"/t.jet": "{{ " + src + " }}"}, "/t.jet", vars, nil, jx.NoEscape)
		c.Eval(1)
		sig := func(k string) string { return "c04:" + k + ":" + vn + ":" + c04top(tree) }
		if res.Failed() {
			c.Violation(sig("error"), "", fmt.Sprintf("%s -> %s (model value %s)", src, res, want.sprint()))
			return
		}
		ok := false
		switch want.k {
		case xFloat, xInt:
			f, err := strconv.ParseFloat(res.Out, 64)
			ok = err == nil && f == want.num()
			if want.k == xInt && strings.ContainsAny(res.Out, ".e") {
				ok = false // two Go integers must combine integrally
			}
		default:
			ok = res.Out == want.sprint()
		}
		if !ok {
			c.Violation(sig("value"), "", fmt.Sprintf("%s rendered %q, model value %s (kind %d)", src, res.Out, want.sprint(), want.k))
			return
		}
		if fmt.Sprint(log) != fmt.Sprint(env.log) {
			c.Violation(sig("operands-evaluated"), "", fmt.Sprintf("%s evaluated probes %v, lazy evaluation requires %v", src, log, env.log))
			return
		}
	}
	c.Count("expressions", 1)
	if tree.ops() >= 2 {
		var b strings.Builder
		tree.shape(&b, 0)
		c.Distinct(b.String())
	}
	if idx%1999 == 0 {
		c.Sample(map[string]interface{}{"variants": variants, "value": want.sprint(), "probes_evaluated": env.log})
	}
}

func c04top(n *xnode) string {
	switch n.op {
	case "bin":
		return n.bop
	case "paren":
		return c04top(n.l)
	}
	return n.op
}

func init() {
	fw.Register(&fw.Property{
		ID:        "C04",
		Technique: "typed reference evaluator and probe call log over generated expression trees, each rendered in four surface forms (minimal parentheses, no spaces, and/or/not, redundant parentheses)",
		Rule: "type-directed random expression trees (depth <=5) over float literals, Go ints of several widths (incl. int8, int64, uint16), float32/64, strings, bools, calls, index expressions, unary minus, !, * / %, + -, relational, equality, && ||, ?:; printed with only the parentheses the documented ladder requires; " +
			"oracle: rendered value equals the model's (ints and floats compared numerically and two Go ints must render integrally; strings/bools byte-exact), identical across the four surface forms, and the log of side-effecting probe operands equals the model's need-only evaluation order; " +
			"12 directed cases pin the documented examples ((a)-1, f(x)-1, s[0]-1, a*-1, truncating / and %, negative non-integral float comparisons, right-nested ?:, integers beyond 2^53 in % / + - * and comparisons); cases the statement does not type (% with non-integral operands, int==non-integral float, division by zero, mixed-kind equality) are discarded and counted; " +
			"non-trivial = at least two operators; distinct by operator/operand-kind shape",
		Assumptions: []string{"float results are produced by the same float64 operations in the same order, so they are compared with =="},
		NCases:      c04n,
		RunCase:     c04run,
		MinDistinct: 500,
	})
}
