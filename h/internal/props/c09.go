package props

import (
	"fmt"
	"math/rand"
	"strings"

	"github.com/CloudyKit/jet/v6"
	"verifh/internal/fw"
	"verifh/internal/jx"
	"verifh/internal/prog"
)

// C09: include in place with the caller's variables; exec returns the value of the last executed return.

var c09 = &progSpec{
	id: "C09",
	cfg: func(idx int) prog.Cfg {
		return prog.Cfg{Items: 3, MaxDepth: 3, Ifs: true, Ranges: true, Vars: true, Blocks: idx%2 == 0, Includes: true, IncludeLoop: true, IncludeIfExists: true, ExecNoReturn: true,
			MultiFile: idx%3 == 0, Try: idx%4 == 0, Fails: idx%4 == 0, Ctx: true, CondKinds: true, IssetSwallow: true}
	},
	nontriv: func(f map[string]bool, _ *prog.Program) bool {
		return f["include"] || f["include-loop"] || f["includeIfExists-existing"] || f["includeIfExists-missing"] || f["exec-no-return"]
	},
	key: featKey,
}

// ---- exec with returns: the value must be that of the last return recorded in the probe log ----

type c09gen struct {
	r     *rand.Rand
	n     int
	files map[string]string
	depth int
	pre   string // prefix of this call's return probes ("r" for the outermost exec, "s" for nested ones)
}

func (g *c09gen) tok() string { g.n++; return fmt.Sprintf("X%d;", g.n) }

func (g *c09gen) ret() string {
	g.n++
	return fmt.Sprintf(`{{return probe("%s%d")}}`, g.pre, g.n)
}

func (g *c09gen) list(d int, incDepth int) string {
	var b strings.Builder
	for i := 1 + g.r.Intn(4); i > 0; i-- {
		switch k := g.r.Intn(14); {
		case k < 3:
			b.WriteString(g.tok())
		case k < 6:
			b.WriteString(g.ret())
		case k == 6 && d < 3:
			cond := []string{"true", "false", "one", "zero"}[g.r.Intn(4)]
			b.WriteString("{{if " + cond + "}}" + g.list(d+1, incDepth))
			if g.r.Intn(2) == 0 {
				b.WriteString("{{else}}" + g.list(d+1, incDepth))
			}
			b.WriteString("{{end}}")
		case k == 7 && d < 3:
			subj := []string{"xs", "empty", "ints(0,3)", "m"}[g.r.Intn(4)]
			head := []string{"range ", "range i, v := ", "range v := "}[g.r.Intn(3)]
			b.WriteString("{{" + head + subj + "}}" + g.list(d+1, incDepth))
			if g.r.Intn(2) == 0 {
				b.WriteString("{{else}}" + g.list(d+1, incDepth))
			}
			b.WriteString("{{end}}")
		case k == 8 && d < 3:
			// failures only BEFORE any return of the try body (what a failed try does to a return already executed is not specified)
			b.WriteString("{{try}}")
			if g.r.Intn(2) == 0 {
				g.n++
				b.WriteString(fmt.Sprintf("{{nosuch%d}}", g.n))
			}
			b.WriteString(g.list(d+1, incDepth))
			if g.r.Intn(2) == 0 {
				b.WriteString("{{catch}}" + g.list(d+1, incDepth))
			}
			b.WriteString("{{end}}")
		case k == 9 && incDepth < 2:
			g.n++
			name := fmt.Sprintf("/ex/inc%d.jet", g.n)
			g.files[name] = g.list(0, incDepth+1)
			spell := name
			if g.r.Intn(2) == 0 {
				spell = strings.TrimPrefix(name, "/ex/") // relative to the including file in /ex/
			}
			if g.r.Intn(2) == 0 {
				b.WriteString(fmt.Sprintf(`{{include %q}}`, spell))
			} else {
				b.WriteString(fmt.Sprintf(`{{include %q "ctx%d"}}`, spell, g.n))
			}
		case k == 10 && d < 3:
			g.n++
			name := fmt.Sprintf("blk%d", g.n)
			b.WriteString("{{block " + name + "()}}" + g.list(d+1, incDepth) + "{{end}}")
			if g.r.Intn(2) == 0 {
				b.WriteString("{{yield " + name + "()}}")
			}
		case k == 11 && d < 3:
			g.n++
			name := fmt.Sprintf("cblk%d", g.n)
			b.WriteString("{{block " + name + "()}}" + g.tok() + "{{yield content}}" + g.tok() + "{{content}}{{end}}")
			b.WriteString("{{yield " + name + "() content}}" + g.list(d+1, incDepth) + "{{end}}")
		case k == 12 && incDepth < 2:
			// nested exec: its returns belong to the inner call
			g.n++
			name := fmt.Sprintf("/ex/nested%d.jet", g.n)
			sub := &c09gen{r: g.r, n: g.n * 100, files: g.files, pre: "s"}
			g.files[name] = sub.list(0, 2)
			b.WriteString(fmt.Sprintf(`{{ _ := exec(%q) }}`, name))
		default:
			b.WriteString(g.tok())
		}
	}
	return b.String()
}

const c09nExec = 2500

func c09execCase(c *fw.Ctx, idx int) bool {
	if idx < c09nBlockCases {
		c09blockCase(c, idx)
		return true
	}
	r := c.Rand(idx, "c09exec")
	g := &c09gen{r: r, files: map[string]string{}, pre: "r"}
	body := g.list(0, 0)
	target := "/ex/e.jet"
	switch idx % 4 {
	case 1: // the executed template extends a root that runs the body
		g.files["/ex/root.jet"] = body
		g.files[target] = `{{extends "root.jet"}}ignored`
	case 2: // two levels
		g.files["/ex/root.jet"] = body
		g.files["/ex/mid.jet"] = `{{extends "/ex/root.jet"}}ignored`
		g.files[target] = `{{extends "mid.jet"}}ignored`
	default:
		g.files[target] = body
	}
	call := fmt.Sprintf("exec(%q)", target)
	if idx%3 == 0 {
		call = fmt.Sprintf("exec(%q, \"c\")", target)
	}
	main := "[" + "{{ " + call + " }}" + "]"
	switch idx % 5 {
	case 1:
		main = "{{range ints(0,2)}}[{{ " + call + " }}]{{end}}"
	case 2:
		main = "{{try}}[{{ " + call + " }}]{{end}}"
	case 3:
		main = "{{block w()}}[{{ " + call + " }}]{{end}}"
	}
	g.files["/main.jet"] = main
	c.Begin(idx, map[string]interface{}{"directed": "exec-returns", "files": g.files})
	defer c.End()
	var log []string
	vars := jet.VarMap{}
	vars.Set("probe", func(id string) string { log = append(log, id); return "‹" + id + "›" })
	vars.Set("xs", []string{"a", "b"})
	vars.Set("empty", []string{})
	vars.Set("m", map[string]int{"k": 1})
	vars.Set("one", 1)
	vars.Set("zero", 0)
	res := jx.Run(g.files, "/main.jet", vars, nil, jx.NoEscape)
	c.Count("exec_return_cases", 1)
	if res.Failed() {
		c.Violation("c09:exec:error", "", res.String())
		return true
	}
	// none of the executed templates' text reaches the writer
	if strings.Contains(res.Out, "X") || strings.Contains(res.Out, "ignored") {
		c.Violation("c09:exec:output-not-discarded", "", res.String())
		return true
	}
	// per top-level exec call: the value is the last return recorded for that call. Calls are sequential, nested
	// exec calls log ids >= 100*n of their own generator; the outermost call's returns are the ids of this generator.
	var own []string
	for _, id := range log {
		if strings.HasPrefix(id, "r") {
			own = append(own, id)
		}
	}
	calls := strings.Count(res.Out, "[")
	want := ""
	if calls == 1 {
		if len(own) > 0 {
			want = "[‹" + own[len(own)-1] + "›]"
		} else {
			want = "[]"
		}
		if res.Out != want {
			c.Violation("c09:exec:value-is-not-last-return", "", fmt.Sprintf("probe log of the call %v, rendered %q, want %q", own, res.Out, want))
			return true
		}
	} else {
		// the same template executed twice (range): both calls must evaluate alike
		parts := strings.Split(strings.Trim(res.Out, "[]"), "][")
		if len(parts) == 2 && parts[0] != parts[1] {
			c.Violation("c09:exec:same-call-different-values", "", res.Out)
			return true
		}
		if len(own) > 0 && len(parts) == 2 && parts[1] != "‹"+own[len(own)-1]+"›" {
			c.Violation("c09:exec:value-is-not-last-return", "", fmt.Sprintf("probe log %v, rendered %q", own, res.Out))
			return true
		}
	}
	if len(own) >= 2 {
		c.Distinct(fmt.Sprintf("exec|%d|%d|%v", idx%4, idx%5, shapeOf(body)))
	}
	if idx%211 == 0 {
		c.Sample(map[string]interface{}{"files": g.files, "probe_log": log, "output": res.Out})
	}
	return true
}

func shapeOf(src string) string {
	var b strings.Builder
	for _, kw := range []string{"return", "if", "range", "try", "catch", "include", "block", "yield", "exec"} {
		b.WriteString(fmt.Sprintf("%s%d,", kw[:2], strings.Count(src, "{{"+kw)))
	}
	return b.String()
}

func init() {
	c09.nDirected = c09nExec
	c09.directed = c09execCase
	const ruleCommon = "each model case is a generated template set executed by the real engine and by the reference evaluator (identical output, errors, probe call log, caller VarMap), multi-file sets also as a sequence of entry points on one shared Set; include targets may share a base name across directories; "
	registerProg(c09, "reference-evaluator monitor for include/includeIfExists/exec call sites plus a probe-log oracle for exec return values",
		ruleCommon+"include/exec/includeIfExists call sites at depth <=3 inside range, blocks, try and other includes, static and computed names (also one include action executed with a different name per loop iteration), relative and absolute spellings, with/without explicit context, targets that extend 1-2 levels; "+
			"every include is preceded by a declaration of an includer variable the target prints, and followed by isset() of a variable the target declares (must be false); "+
			"24 directed cases: the includer's (own, overriding, imported) blocks yielded from included/exec'd templates under a nil, empty and filled VarMap; the next ~2500 cases per run generate exec targets with {{return probe(..)}} at every position (top level, if/else, range/else, try/catch, included templates with and without context, block bodies, yielded content, nested exec): the rendered value must be the last return recorded in the observed call log (nil if none) and none of the target's text may reach the writer; "+
			"non-trivial = an include/exec/includeIfExists site is present (model cases) or >=2 returns were executed (exec cases); distinct by feature set / construct counts", 25000, 800000, 300)
}
