package props

import (
	"fmt"
	"math/rand"
	"os"
	"path"
	"path/filepath"
	"strings"

	"github.com/CloudyKit/jet/v6"
	"verifh/internal/fw"
	"verifh/internal/jx"
	"verifh/internal/rec"
)

// C16: cache coherence, checked against a sequential executable model.

var c16bases = []string{"/p", "/q.v2", "/r", "/d/s.part"} // some base names contain a dot (not a configured extension)

const (
	kPlain = iota
	kExt
	kImp
	kInc
	kBroken
	kEmpty // a file of length zero is a file (and a template rendering nothing)
)

type c16file struct {
	Ver  int `json:"ver"`
	Kind int `json:"kind"`
	Ref  int `json:"ref"` // index into c16bases (always greater than the file's own base: no cycles)
}

func (f c16file) content(path string) string {
	switch f.Kind {
	case kExt:
		return fmt.Sprintf(`{{extends "%s"}}X%d@%s`, c16bases[f.Ref], f.Ver, path)
	case kImp:
		return fmt.Sprintf(`{{import "%s"}}I%d@%s`, c16bases[f.Ref], f.Ver, path)
	case kInc:
		return fmt.Sprintf(`N%d@%s<{{include "%s"}}>`, f.Ver, path, c16bases[f.Ref])
	case kBroken:
		return fmt.Sprintf(`V%d@%s{{if}}`, f.Ver, path)
	case kEmpty:
		return ""
	}
	return fmt.Sprintf("V%d@%s", f.Ver, path)
}

// snapshot of a loaded template in the model
type c16snap struct {
	path string
	f    c16file
	ref  *c16snap // resolved extends/import target at load time
}

type c16model struct {
	exts       []string
	dev        bool
	files      map[string]c16file
	openErr    map[string]bool
	readErr    map[string]bool
	remembered map[string]*c16snap // requested name -> snapshot
	trace      []string            // expected loader calls of the current op
	puts       []string            // expected Cache.Put paths of the current op
}

func (m *c16model) lookup(name string, cacheAfter bool) (*c16snap, bool) {
	if !m.dev {
		if s, ok := m.remembered[name]; ok {
			return s, true
		}
	}
	found := ""
	for _, e := range m.exts {
		p := name + e
		_, ok := m.files[p]
		m.trace = append(m.trace, fmt.Sprintf("Exists(%s)=%v", p, ok))
		if ok {
			found = p
			break
		}
	}
	if found == "" {
		return nil, false
	}
	if m.openErr[found] {
		m.trace = append(m.trace, "Open("+found+")=err")
		return nil, false
	}
	m.trace = append(m.trace, "Open("+found+")=ok")
	if m.readErr[found] {
		return nil, false
	}
	f := m.files[found]
	s := &c16snap{path: found, f: f}
	switch f.Kind {
	case kBroken:
		return nil, false
	case kExt, kImp:
		r, ok := m.lookup(c16bases[f.Ref], cacheAfter)
		if !ok {
			return nil, false
		}
		s.ref = r
	}
	if cacheAfter && !m.dev {
		m.remembered[name] = s
		m.puts = append(m.puts, found)
	}
	return s, true
}

// render returns the expected output and whether execution succeeds.
func (m *c16model) render(s *c16snap) (string, bool) {
	switch s.f.Kind {
	case kExt:
		return m.render(s.ref)
	case kImp:
		return fmt.Sprintf("I%d@%s", s.f.Ver, s.path), true
	case kInc:
		out := fmt.Sprintf("N%d@%s<", s.f.Ver, s.path)
		t, ok := m.lookup(c16bases[s.f.Ref], true)
		if !ok {
			return out, false
		}
		in, ok := m.render(t)
		if !ok {
			return out + in, false
		}
		return out + in + ">", true
	case kEmpty:
		return "", true
	}
	return fmt.Sprintf("V%d@%s", s.f.Ver, s.path), true
}

type c16op struct {
	Op   string   `json:"op"`
	Arg  string   `json:"arg,omitempty"`
	File *c16file `json:"file,omitempty"`
}

func c16n(tier string) int {
	if tier == "thorough" {
		return 400000
	}
	return 6000
}

func c16traceOf(calls []rec.Call) []string {
	var t []string
	for _, c := range calls {
		switch c.Op {
		case "Exists":
			t = append(t, fmt.Sprintf("Exists(%s)=%v", c.Path, c.OK))
		case "Open":
			if c.OK {
				t = append(t, "Open("+c.Path+")=ok")
			} else {
				t = append(t, "Open("+c.Path+")=err")
			}
		}
	}
	return t
}

func c16run(c *fw.Ctx, idx int) {
	if idx == 0 {
		c16alias(c)
		return
	}
	if idx <= 4 {
		c16dirCandidate(c, idx)
		return
	}
	r := c.Rand(idx, "c16")
	exts := c15extLists[r.Intn(len(c15extLists))]
	dev := idx%2 == 0
	custom := idx%4 < 2
	m := &c16model{exts: exts, dev: dev, files: map[string]c16file{}, openErr: map[string]bool{}, readErr: map[string]bool{}, remembered: map[string]*c16snap{}}
	inner := jet.NewInMemLoader()
	ld := rec.NewLoader(inner)
	ch := rec.NewCache()
	opts := []jet.Option{jet.WithTemplateNameExtensions(exts), jx.NoEscape}
	if dev {
		opts = append(opts, jet.InDevelopmentMode())
	}
	if custom {
		opts = append(opts, jet.WithCache(ch))
	}
	optNote := ""
	if r.Intn(4) == 0 {
		// options are applied in the order given: the last word on development mode counts
		if dev {
			opts = append([]jet.Option{jet.DevelopmentMode(false)}, opts...)
			optNote = "DevelopmentMode(false) first, InDevelopmentMode() later"
		} else {
			opts = append(append([]jet.Option{jet.InDevelopmentMode()}, opts...), jet.DevelopmentMode(false))
			optNote = "InDevelopmentMode() first, DevelopmentMode(false) last"
		}
		c.Count("sets_with_development_mode_given_twice", 1)
	}
	set := jet.NewSet(ld, opts...)
	var hist []c16op
	cfg := map[string]interface{}{"extensions": exts, "dev": dev, "custom_cache": custom, "options": optNote}
	c.Begin(idx, cfg)
	defer c.End()
	ver := 0
	newFile := func(base int) c16file {
		ver++
		f := c16file{Ver: ver}
		if base < len(c16bases)-1 {
			switch k := r.Intn(10); {
			case k < 2:
				f.Kind = kExt
			case k < 4:
				f.Kind = kImp
			case k < 6:
				f.Kind = kInc
			}
			if f.Kind != kPlain {
				f.Ref = base + 1 + r.Intn(len(c16bases)-1-base)
			}
		}
		if r.Intn(9) == 0 {
			f.Kind = kBroken
		}
		if r.Intn(12) == 0 {
			f.Kind = kEmpty
		}
		return f
	}
	setFile := func(base int, e string) {
		p := c16bases[base] + e
		f := newFile(base)
		m.files[p] = f
		inner.Set(p, f.content(p))
		if f.Kind == kEmpty && m.readErr[p] {
			ld.ReadErrAfter[p] = 0
			delete(ld.ReadErrWithData, p)
		}
		hist = append(hist, c16op{Op: "SetFile", Arg: p, File: &f})
	}
	for b := range c16bases {
		if r.Intn(5) != 0 {
			setFile(b, exts[r.Intn(len(exts))])
		}
	}
	if dev && custom {
		// a Cache that already holds entries (shared with a production Set, say): development mode does not look at it
		staleSet := jet.NewSet(jet.NewInMemLoader())
		for _, b := range c16bases {
			for _, e := range exts {
				if t, err := staleSet.Parse(b+e, "STALE-ENTRY-OF-A-SHARED-CACHE"); err == nil {
					ch.Put(b+e, t)
				}
			}
		}
		ch.Log.Reset()
		hist = append(hist, c16op{Op: "PrefillCache", Arg: "every candidate path holds a stale template"})
		c.Count("development_sets_over_a_prefilled_cache", 1)
	}
	actual := map[string]*jet.Template{} // requested name -> template returned when it was remembered
	fail := func(sig, detail string) {
		cfg["history"] = hist
		c.Journal(cfg)
		mode := "nondev"
		if dev {
			mode = "dev"
		}
		c.Violation("c16:"+sig+":"+mode, "", detail)
	}
	// checkOp compares the recorded loader/cache calls of the last operation with the model's
	checkOp := func(what string, allowPut bool) bool {
		got := c16traceOf(ld.Log.Snapshot())
		if fmt.Sprint(got) != fmt.Sprint(m.trace) {
			fail("loader-trace", fmt.Sprintf("%s: loader calls %v, model expects %v", what, got, m.trace))
			return false
		}
		if custom {
			var puts []string
			for _, call := range ch.Log.Snapshot() {
				if call.Op == "Put" {
					puts = append(puts, call.Path)
				}
			}
			if dev && len(puts) > 0 {
				fail("put-in-dev-mode", fmt.Sprintf("%s: Cache.Put%v in development mode", what, puts))
				return false
			}
			if !allowPut && len(puts) > 0 {
				fail("parse-added-to-cache", fmt.Sprintf("%s: Cache.Put%v during Set.Parse", what, puts))
				return false
			}
			if fmt.Sprint(puts) != fmt.Sprint(m.puts) {
				fail("cache-puts", fmt.Sprintf("%s: Cache.Put%v, model expects %v", what, puts, m.puts))
				return false
			}
		}
		return true
	}
	// syncActual records the identity of templates the model says were remembered as a side effect
	// (extends/import/include targets); fetching them must not touch the loader
	syncActual := func() bool {
		for nm := range m.remembered {
			if _, ok := actual[nm]; !ok {
				ld.Log.Reset()
				t, err, _ := jx.Get(set, nm)
				if got := c16traceOf(ld.Log.Snapshot()); len(got) > 0 || err != nil {
					fail("dependency-not-remembered", fmt.Sprintf("template %q was pulled in by an earlier successful lookup but GetTemplate consulted the loader again: %v (err=%v)", nm, got, err))
					return false
				}
				actual[nm] = t
			}
		}
		return true
	}
	// templates handed out earlier and held on to by the caller: executing them again later resolves their includes
	// at that time (development mode: from the loader as it is then)
	type heldT struct {
		t    *jet.Template
		snap *c16snap
		what string
	}
	var held []heldT
	n := 10 + r.Intn(50)
	hits, misses, failures := 0, 0, 0
	for step := 0; step < n; step++ {
		ld.Log.Reset()
		ch.Log.Reset()
		m.trace, m.puts = nil, nil
		switch k := r.Intn(20); {
		case k < 9: // GetTemplate (+Execute)
			b := r.Intn(len(c16bases))
			name := c16bases[b]
			hist = append(hist, c16op{Op: "GetTemplate", Arg: name})
			_, wasRemembered := m.remembered[name]
			want, ok := m.lookup(name, true)
			asked := name
			if r.Intn(4) == 0 {
				// the same template under another spelling of its absolute name: one name, one remembered template
				asked = []string{"/" + name, "/." + name, "/zz/.." + name, "/" + strings.Replace(name[1:], "/", "//", 1), path.Dir(name) + "/./" + path.Base(name)}[r.Intn(5)]
				hist = append(hist, c16op{Op: "…spelt", Arg: asked})
				c.Count("lookups_under_unclean_spellings", 1)
			}
			t, err, pan := jx.Get(set, asked)
			c.Eval(1)
			if pan != nil {
				fail("panic", fmt.Sprint(pan))
				return
			}
			if ok != (err == nil) {
				fail("lookup-outcome", fmt.Sprintf("GetTemplate(%q): error=%v, model expects success=%v", name, err, ok))
				return
			}
			if !checkOp("GetTemplate("+name+")", true) {
				return
			}
			if !ok {
				failures++
				continue
			}
			if !dev && wasRemembered {
				hits++
				if actual[name] != t {
					fail("hit-not-identical", fmt.Sprintf("GetTemplate(%q) returned a different *Template than the remembered one", name))
					return
				}
			} else {
				misses++
			}
			if !dev {
				actual[name] = t
				if !syncActual() {
					return
				}
			}
			held = append(held, heldT{t, want, "GetTemplate(" + name + ")"})
			if r.Intn(2) == 0 {
				ld.Log.Reset()
				ch.Log.Reset()
				m.trace, m.puts = nil, nil
				wantOut, wantOK := m.render(want)
				res := jx.Exec(t, nil, nil)
				hist = append(hist, c16op{Op: "Execute", Arg: name})
				if res.Panic != nil || wantOK != (res.Err == nil) || res.Out != wantOut {
					fail("rendered-version", fmt.Sprintf("Execute(%s): want %q ok=%v, got %s", name, wantOut, wantOK, res))
					return
				}
				if !checkOp("Execute("+name+")", true) {
					return
				}
			}
			if !syncActual() {
				return
			}
		case k < 12: // Set.Parse of a template referencing the others, then execute it
			f := newFile(-1 + r.Intn(2)) // may reference any base
			if f.Kind == kBroken {
				f.Kind = kPlain
			}
			src := f.content("/parsed.jet")
			hist = append(hist, c16op{Op: "Parse", Arg: src})
			before := len(m.remembered)
			var snap *c16snap
			ok := true
			snap = &c16snap{path: "/parsed.jet", f: f}
			if f.Kind == kExt || f.Kind == kImp {
				snap.ref, ok = m.lookup(c16bases[f.Ref], false)
			}
			t, err, pan := jx.Parse(set, "/parsed.jet", src)
			c.Eval(1)
			if pan != nil {
				fail("panic", fmt.Sprint(pan))
				return
			}
			if ok != (err == nil) {
				fail("parse-outcome", fmt.Sprintf("Parse(%q): error=%v, model expects success=%v", src, err, ok))
				return
			}
			if !checkOp("Parse", false) {
				return
			}
			if len(m.remembered) != before {
				fail("model-bug", "model remembered something during Parse")
				return
			}
			if ok {
				held = append(held, heldT{t, snap, "Parse"})
			}
			// nothing newly remembered: a fresh lookup of a not-yet-remembered name must consult the loader
			if ok && r.Intn(2) == 0 {
				ld.Log.Reset()
				ch.Log.Reset()
				m.trace, m.puts = nil, nil
				wantOut, wantOK := m.render(snap)
				res := jx.Exec(t, nil, nil)
				hist = append(hist, c16op{Op: "ExecuteParsed"})
				if res.Panic != nil || wantOK != (res.Err == nil) || res.Out != wantOut {
					fail("rendered-version", fmt.Sprintf("Execute(parsed %q): want %q ok=%v, got %s", src, wantOut, wantOK, res))
					return
				}
				if !checkOp("Execute(parsed)", true) {
					return
				}
				if !syncActual() {
					return
				}
			}
		case k == 15 && len(held) > 0: // execute a template obtained earlier once more
			h := held[r.Intn(len(held))]
			hist = append(hist, c16op{Op: "ExecuteHeld", Arg: h.what})
			wantOut, wantOK := m.render(h.snap)
			res := jx.Exec(h.t, nil, nil)
			c.Eval(1)
			c.Count("held_templates_executed_again", 1)
			if res.Panic != nil || wantOK != (res.Err == nil) || res.Out != wantOut {
				fail("rendered-version-held", fmt.Sprintf("Execute of the template obtained earlier by %s: want %q ok=%v, got %s", h.what, wantOut, wantOK, res))
				return
			}
			if !checkOp("Execute(held "+h.what+")", true) {
				return
			}
			if !syncActual() {
				return
			}
		case k < 16:
			setFile(r.Intn(len(c16bases)), exts[r.Intn(len(exts))])
		case k < 18:
			for p := range m.files {
				hist = append(hist, c16op{Op: "Delete", Arg: p})
				delete(m.files, p)
				inner.Delete(p)
				break
			}
		default:
			for p := range m.files {
				switch r.Intn(3) {
				case 0:
					hist = append(hist, c16op{Op: "InjectOpenError", Arg: p})
					m.openErr[p], ld.OpenErr[p] = true, true
				case 1:
					hist = append(hist, c16op{Op: "InjectReadError", Arg: p})
					m.readErr[p] = true
					ld.ReadErrAfter[p] = r.Intn(4)
					if m.files[p].Kind == kEmpty {
						ld.ReadErrAfter[p] = 0 // nothing to read: the fault has to strike at once to strike at all
					} else if r.Intn(3) == 0 {
						// the failing Read hands over some bytes together with its error and the reader reports io.EOF from then on
						ld.ReadErrWithData[p] = 1 + r.Intn(3)
						hist[len(hist)-1].Op = "InjectReadErrorDeliveredWithData"
					}
				case 2:
					hist = append(hist, c16op{Op: "ClearFaults", Arg: p})
					delete(m.openErr, p)
					delete(m.readErr, p)
					delete(ld.OpenErr, p)
					delete(ld.ReadErrAfter, p)
					delete(ld.ReadErrWithData, p)
				}
				break
			}
		}
	}
	c.Count("hits", hits)
	c.Count("misses", misses)
	c.Count("failed_lookups", failures)
	c.Count("histories", 1)
	if failures > 0 && (hits > 0 || dev) {
		c.Distinct(fmt.Sprintf("%v|%v|%v|%d|%d|%d|%d", exts, dev, custom, n, hits, misses, failures))
	}
	if idx%211 == 1 {
		if len(hist) > 14 {
			hist = hist[:14]
		}
		c.Sample(map[string]interface{}{"config": map[string]interface{}{"extensions": exts, "dev": dev, "custom_cache": custom}, "history_prefix": hist})
	}
}

// c16dirCandidate: with a file-system loader a DIRECTORY named like an earlier candidate (views/users/ next to
// views/users.jet, "" before ".jet" in the extension list) is no existing file: the first existing FILE wins.
func c16dirCandidate(c *fw.Ctx, idx int) {
	dev := idx%2 == 0
	exts := [][]string{nil, {"", ".jet"}, {".tpl", "", ".jet"}, nil, {"", ".html", ".jet"}}[idx]
	c.Begin(idx, map[string]interface{}{"directed": "directory named like an earlier extension candidate", "dev": dev, "extensions": exts})
	defer c.End()
	root, err := os.MkdirTemp(os.Getenv("VCHECK_TMP"), "c16-")
	if err != nil {
		c.Count("tempdir_failed", 1)
		return
	}
	defer os.RemoveAll(root)
	os.MkdirAll(filepath.Join(root, "users", "deep"), 0755)
	os.WriteFile(filepath.Join(root, "users", "list.jet"), []byte("LIST"), 0644)
	os.WriteFile(filepath.Join(root, "users.jet"), []byte("USERS-TEMPLATE"), 0644)
	os.WriteFile(filepath.Join(root, "page.jet"), []byte("PAGE<{{include \"users\"}}>"), 0644)
	opts := []jet.Option{jx.NoEscape}
	if dev {
		opts = append(opts, jet.InDevelopmentMode())
	}
	if exts != nil {
		opts = append(opts, jet.WithTemplateNameExtensions(exts))
	}
	set := jet.NewSet(jet.NewOSFileSystemLoader(root), opts...)
	for round := 0; round < 2; round++ {
		for name, want := range map[string]string{"/users": "USERS-TEMPLATE", "/page": "PAGE<USERS-TEMPLATE>", "/users/list": "LIST"} {
			res := jx.RunSet(set, name, nil, nil)
			c.Eval(1)
			if res.Failed() || res.Out != want {
				c.Violation("c16:first-existing-file-wins:directory-candidate", "", fmt.Sprintf("round %d: GetTemplate(%q) rendered %s, want %q (users/ is a directory, users.jet the first existing file)", round, name, res, want))
				return
			}
		}
	}
	c.Count("directed_directory_candidate_cases", 1)
	c.Distinct(fmt.Sprintf("dir-candidate|%v|%v", dev, exts))
}

// c16alias is the directed witness of known finding K2 (cache aliasing between name and name+extension).
func c16alias(c *fw.Ctx) {
	desc := map[string]interface{}{"directed": "files /x and /x.jet, default extensions; GetTemplate(\"/x.jet\") then GetTemplate(\"/x\")"}
	c.Begin(0, desc)
	defer c.End()
	inner := jet.NewInMemLoader()
	inner.Set("/x", "PLAIN-X")
	inner.Set("/x.jet", "X-DOT-JET")
	ld := rec.NewLoader(inner)
	set := jet.NewSet(ld, jx.NoEscape)
	r1 := jx.RunSet(set, "/x.jet", nil, nil)
	ld.Log.Reset()
	r2 := jx.RunSet(set, "/x", nil, nil)
	calls := ld.Log.Snapshot()
	if r1.Out != "X-DOT-JET" {
		c.Violation("c16:alias-setup", "", r1.String())
		return
	}
	if r2.Out != "PLAIN-X" || len(calls) == 0 {
		c.Violation("c16:first-existing-extension-does-not-win:alias", "cache-ext-alias",
			fmt.Sprintf("GetTemplate(\"/x\") after GetTemplate(\"/x.jet\") rendered %q with %d loader calls; /x exists and \"\" is the first configured extension", r2.Out, len(calls)))
	}
	_ = strings.Contains
	_ = rand.Int
}

func init() {
	fw.Register(&fw.Property{
		ID:        "C16",
		Technique: "sequential history checking: recorded Loader/Cache call traces, returned template identities and rendered version tokens compared with an executable model of the cache statement",
		Rule: "each case is one random history (10-60 operations) on one Set: GetTemplate (+Execute), executing a template obtained earlier once more, Set.Parse of a template extending/importing/including the others (+Execute), file edits with fresh version tokens, deletions, injected faults (Exists true but Open fails, reader failing after n bytes, unparsable content, broken parent) " +
			"over 4 base names x 5 extension lists x {development mode, normal} x {default cache, recording custom cache (pre-filled with stale entries in development mode)}; files extend/import/include only higher-numbered bases (acyclic); " +
			"oracle per operation: outcome, exact Loader.Exists/Open trace (hit = none, miss = extension probes in order up to the first existing file), pointer identity on hits, Cache.Put list (never in development mode or during Parse), rendered versions; " +
			"non-trivial = history contains a failed lookup and (a cache hit or development mode); distinct by configuration and hit/miss/failure counts; case 0 is the directed witness of known finding K2 Since waves 8/9: extension lists whose entries do not start with a dot; files of length zero.",
		Assumptions: []string{"requested names are bare base names (a name that equals another name plus a configured extension is the separate known finding K2)", "the in-memory loader is correct (C19)"},
		NCases:      c16n,
		RunCase:     c16run,
		MinDistinct: 50,
	})
}
