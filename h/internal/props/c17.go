package props

import (
	"fmt"
	"math/rand"
	"reflect"
	"strings"

	"verifh/internal/data"
	"verifh/internal/fw"
	"verifh/internal/jx"
)

// C17: isset never fails and is true exactly when every argument exists and is non-nil;
// v, ok := m[k] binds ok to key presence.

func c17path(r *rand.Rand, root reflect.Value) (data.Path, string, bool) {
	for tries := 0; tries < 30; tries++ {
		var p data.Path
		how := ""
		switch k := r.Intn(10); {
		case k == 0:
			p, how = data.NilPaths[r.Intn(len(data.NilPaths))], "through-nil"
		case k == 1:
			// an unhashable key for a map with interface keys: evaluating it raises a Go runtime error
			p = data.Path{Steps: []data.Step{{Kind: data.SField, Name: "MapAny"}, {Kind: data.SIndex, Index: data.VarRef([]string{"kslice", "kstruct", "kdyn"}[r.Intn(3)])}}}
			if r.Intn(4) == 0 {
				p = data.Path{Steps: []data.Step{{Kind: data.SField, Name: "MapPair"}, {Kind: data.SIndex, Index: data.VarRef("kpair")}}}
			}
			how = "unhashable-key"
		case k == 2:
			// an index written as an arithmetic expression: valid, or raising a Go runtime error (integer division by zero)
			idx := data.Computed{Src: "ix2 - ix1", V: 1}
			how = "computed-index"
			if r.Intn(2) == 0 {
				idx = data.Computed{Src: []string{"ix1 % izero", "ix2 / izero", "ix1 % (ix1 - ix1)"}[r.Intn(3)], V: 0, Fail: true}
				how = "computed-index-runtime-error"
			}
			p = data.Path{Steps: []data.Step{{Kind: data.SField, Name: []string{"Strs", "Ints", "Arr", "Ifaces"}[r.Intn(4)]}, {Kind: data.SIndex, Index: idx}}}
		default:
			p = data.GenPath(r, root, 1+r.Intn(5))
			if k < 6 {
				p, how = data.Corrupt(r, root, p)
			}
		}
		ok := len(p.Steps) > 0
		for _, s := range p.Steps {
			if s.Kind == data.SCall || s.Kind == data.SSlice {
				ok = false // isset takes identifier, field, chain and index expressions
			}
		}
		if ok {
			return p, how, true
		}
	}
	return data.Path{}, "", false
}

func c17n(tier string) int {
	if tier == "thorough" {
		return 2000000
	}
	return 50000
}

type c17lookup struct {
	m       string
	key     string // source of the key expression
	present bool
}

var c17lookups = []c17lookup{
	{"r.MapAnyAny", `"nilp"`, true}, {"r.MapAnyAny", `"nil"`, true}, {"r.MapAnyAny", `"absent"`, false}, {"r.MapArrAny", `karr`, true},
	{"r.MapSS", `""`, true}, {"r.MapSS", `kempty`, true}, {"r.MapSI", `""`, false}, {"r.MapSS", `"k1"`, true}, {"r.MapSS", `"empty"`, true}, {"r.MapSS", `"absent"`, false}, {"r.MapSS", `kk1`, true}, {"r.MapSS", `kabsent`, false},
	{"r.MapSI", `"zero"`, true}, {"r.MapSI", `"a"`, true}, {"r.MapSI", `"b"`, false},
	{"r.MapIS", `1`, true}, {"r.MapIS", `0`, true}, {"r.MapIS", `7`, false}, {"r.MapIS", `ix2`, true}, {"r.MapIS", `ix9`, false},
	{"r.MapNamed", `"nk"`, true}, {"r.MapNamed", `knamed`, true}, {"r.MapNamed", `"zz"`, false},
	{"r.MapSP", `"p"`, true}, {"r.MapSP", `"nilp"`, true}, {"r.MapSP", `"q"`, false},
	{"r.Nested", `"null"`, true}, {"r.Nested", `"s"`, true}, {"r.Nested", `"none"`, false}, {"r.Nested.m", `"null"`, true}, {"r.Nested.m", `"k"`, true}, {"r.Nested.m", `"x"`, false},
	{"r.NilMap", `"k"`, false}, {"r.IfaceMap", `"k"`, true}, {"r.IfaceMap", `"z"`, false}, {"r.MapAny", `"a"`, true}, {"r.MapAny", `"zz"`, false},
}

// isset of a variable that an inner scope re-declared with no value (nil literal, value half of a failed two-value lookup,
// assignment of nil): the innermost declaration is the one that counts, whatever the same name means further out
// a non-nil pointer is a non-nil value, whatever it points to (a nil slice, a nil map, a nil pointer, a nil interface)
type c17ptrs struct {
	PSl   *[]string
	PMap  *map[string]int
	PP    **c17ptrs
	PIf   *interface{}
	PNil  *[]string
	PPSet **c17ptrs
	// values of function and channel type are nil or not like pointers are
	NilFn    func() string
	Fn       func() string
	FnMap    map[string]func() string
	AnyNilFn interface{}
	AnyFn    interface{}
	NilCh    chan int
	Ch       chan int
}

func c17pointers() c17ptrs {
	var sl []string
	var m map[string]int
	var inner *c17ptrs
	var ifc interface{}
	set := &c17ptrs{}
	fn := func() string { return "called" }
	return c17ptrs{PSl: &sl, PMap: &m, PP: &inner, PIf: &ifc, PPSet: &set,
		Fn: fn, FnMap: map[string]func() string{"fn": fn, "nilfn": nil}, AnyNilFn: (func() string)(nil), AnyFn: fn, Ch: make(chan int)}
}

var c17shadow = []struct{ src, want string }{
	{`[{{ isset(pn.PSl) }}{{ isset(pn.PMap) }}{{ isset(pn.PP) }}{{ isset(pn.PIf) }}{{ isset(pn.PPSet) }}|{{ isset(pn.PNil) }}|{{ isset(pn.PSl, pn.PMap) }}{{ pn.PMap | isset(pn.PSl) }}{{ pn.PP | isset }}]`, "[truetruetruetruetrue|false|truetruetrue]"},
	// elements of maps with interface / array keys that hold typed nils are nil like everywhere else
	{`[{{ isset(r.MapAnyAny["nilp"]) }}{{ isset(r.MapAnyAny["nilm"]) }}{{ isset(r.MapAnyAny["nils"]) }}{{ isset(r.MapAnyAny["nil"]) }}{{ isset(r.MapAnyAny["absent"]) }}|{{ isset(r.MapAnyAny["v"]) }}{{ isset(r.MapAnyAny["zero"]) }}]`, "[falsefalsefalsefalsefalse|truetrue]"},
	{`[{{ isset(r.MapAnyAny.nilp) }}{{ isset(r.MapAnyAny.v) }}{{ isset(r.MapArrAny[karr]) }}{{ isset(r.MapArrAny[karr2]) }}{{ isset(r.MapAnyAny["nilp"].Name) }}]`, "[falsetruefalsetruefalse]"},
	{`[{{ isset(r.Nested["null"]) }}{{ isset(r.MapSP["nilp"]) }}{{ isset(r.MapSP.nilp) }}{{ isset(r.MapSP["p"]) }}]`, "[falsefalsefalsetrue]"},
	{`{{ v := "outer" }}{{ if true }}{{ v := nil }}[{{ isset(v) }}]{{ end }}[{{ isset(v) }}]`, "[false][true]"},
	{`{{ v := "outer" }}{{ if v, ok := r.MapSS["absent"]; !ok }}[{{ isset(v) }}]{{ end }}[{{ isset(v) }}]`, "[false][true]"},
	{`{{ v := "outer" }}{{ if true }}{{ v, ok := r.MapSS["absent"] }}[{{ isset(v) }}{{ ok }}]{{ end }}`, "[falsefalse]"},
	{`{{ if true }}{{ kk1 := nil }}[{{ isset(kk1) }}]{{ end }}[{{ isset(kk1) }}]`, "[false][true]"}, // kk1 is a VarMap variable
	{`{{ if true }}{{ len := nil }}[{{ isset(len) }}]{{ end }}[{{ isset(len) }}]`, "[false][true]"}, // len is a built-in
	{`{{ v := "outer" }}{{ range i := ints(0, 1) }}{{ v := nil }}[{{ isset(v) }}]{{ end }}[{{ isset(v) }}]`, "[false][true]"},
	{`{{ v := "x" }}{{ v = nil }}[{{ isset(v) }}]{{ v = 0 }}[{{ isset(v) }}]`, "[false][true]"},
	// nil functions and channels are nil values
	{`[{{ isset(pn.NilFn) }}{{ isset(pn.FnMap["nilfn"]) }}{{ isset(pn.FnMap.nilfn) }}{{ isset(pn.FnMap.absent) }}{{ isset(pn.AnyNilFn) }}{{ isset(nilfnvar) }}{{ isset(pn.Fn, pn.NilFn) }}{{ isset(pn.NilCh) }}|{{ isset(pn.Fn) }}{{ isset(pn.FnMap["fn"]) }}{{ isset(pn.AnyFn) }}{{ isset(fnvar) }}{{ isset(pn.Ch) }}{{ isset(pn.Fn, pn.Ch) }}]`, "[falsefalsefalsefalsefalsefalsefalsefalse|truetruetruetruetruetrue]"},
	// keys and indexes that a collection or a function hands over boxed in interface{} count as the values they hold
	{`[{{range _, k := ikeys}}{{isset(im[k])}}{{end}}|{{range _, i := iidx}}{{isset(ilist[i])}}{{end}}|{{k := ipick()}}{{isset(im.a, im[k], k)}}|{{range _, k := ikeys}}{{v, ok := im[k]}}{{ok}}{{end}}|{{range ikeys}}{{isset(im[.])}}{{end}}{{isset(im[ipick()])}}]`, "[truefalse|truefalse|true|truefalse|truefalsetrue]"},
	// a name promoted from two embedded structs at the same depth is ambiguous (Go's selector rules): it is no field at all
	{`[{{ isset(amb.ID) }}{{ isset(amb["ID"]) }}{{ isset(amb.Title, amb.ID) }}{{ amb.Title | isset(amb.ID) }}|{{ isset(amb.OnlyA) }}{{ isset(amb.Title) }}{{ isset(amb.C17AmbA.ID) }}{{ isset(amb.C17AmbB.ID, amb.OnlyA) }}]`, "[falsefalsefalsefalse|truetruetruetrue]"},
}

type C17AmbA struct{ ID, OnlyA string }
type C17AmbB struct{ ID string }
type C17Amb struct {
	C17AmbA
	C17AmbB
	Title string
}

func c17run(c *fw.Ctx, idx int) {
	r := c.Rand(idx, "c17")
	if idx < len(c17shadow) {
		d := c17shadow[idx]
		g := &data.Gen{R: r}
		root := g.Root()
		c.Begin(idx, map[string]interface{}{"directed": "isset of names re-declared without a value / typed nil elements", "template": d.src})
		defer c.End()
		dv := c06vars(root)
		dv.Set("pn", c17pointers())
		dv.Set("nilfnvar", (func() string)(nil)).Set("fnvar", func() string { return "called" })
		dv.Set("amb", C17Amb{C17AmbA{"ida", "only"}, C17AmbB{"idb"}, "title"})
		dv.Set("ikeys", []interface{}{"a", "zz"}).Set("im", map[string]int{"a": 1}).Set("iidx", []interface{}{0, 5}).Set("ilist", []string{"x"}).Set("ipick", func() interface{} { return "a" })
		out := jx.Run(map[string]string{"/t.jet": d.src}, "/t.jet", dv, root, jx.NoEscape)
		c.Count("directed_shadowing_cases", 1)
		if out.Failed() || out.Out != d.want {
			c.Violation(fmt.Sprintf("c17:directed-isset:%d", idx), "", fmt.Sprintf("%s rendered %s, want %q", d.src, out, d.want))
			return
		}
		c.Distinct(fmt.Sprintf("shadow|%d", idx))
		return
	}
	g := &data.Gen{R: r}
	root := g.Root()
	rv := reflect.ValueOf(root)
	vars := c06vars(root)
	if idx%6 == 5 {
		// two-value map lookup
		l := c17lookups[(idx/6)%len(c17lookups)]
		form := (idx / 6 / len(c17lookups)) % 6
		var src string
		switch form {
		case 0:
			src = fmt.Sprintf(`{{ v, ok := %s[%s] }}[{{ ok }}]`, l.m, l.key)
		case 1:
			src = fmt.Sprintf(`{{ _, ok := %s[%s] }}[{{ ok }}]`, l.m, l.key)
		case 2:
			src = fmt.Sprintf(`{{ ok := "x" }}{{ v := 1 }}{{ v, ok = %s[%s] }}[{{ ok }}]`, l.m, l.key)
		case 3: // the value is discarded, ok is assigned to a variable that held the opposite
			src = fmt.Sprintf(`{{ ok := %v }}{{ _, ok = %s[%s] }}[{{ ok }}]`, !l.present, l.m, l.key)
		case 4:
			src = fmt.Sprintf(`{{ ok := %v }}{{ if _, ok = %s[%s]; ok }}[true]{{ else }}[false]{{ end }}`, !l.present, l.m, l.key)
		default:
			src = fmt.Sprintf(`{{ ok := %v }}{{ range i := ints(0, 2) }}{{ _, ok = %s[%s] }}{{ end }}[{{ ok }}]`, !l.present, l.m, l.key)
		}
		c.Begin(idx, map[string]interface{}{"lookup": src, "key_present": l.present})
		defer c.End()
		out := jx.Run(map[string]string{"/t.jet": src}, "/t.jet", vars, root, jx.NoEscape)
		c.Count("two_value_lookups", 1)
		want := fmt.Sprintf("[%v]", l.present)
		if out.Failed() || out.Out != want {
			c.Violation("c17:lookup-ok:"+l.m, "", fmt.Sprintf("%s rendered %s; the key is present: %v", src, out, l.present))
			return
		}
		c.Distinct(fmt.Sprintf("lookup|%s|%s|%d", l.m, l.key, form))
		return
	}
	n := 1 + r.Intn(4)
	var srcs []string
	all := true
	var hows []string
	piped := idx%6 == 4
	if piped {
		n = 1
	}
	for i := 0; i < n; i++ {
		p, how, ok := c17path(r, rv)
		if !ok {
			return
		}
		res := data.Resolve(rv, p)
		if how == "unhashable-key" {
			res.Out = data.OError
		}
		if res.Out == data.OUnspecified {
			c.Count("discarded_unspecified:"+res.Why, 1)
			return
		}
		if piped && res.Out == data.OError {
			c.Count("discarded_piped_failing_path", 1)
			return
		}
		base := "r"
		if r.Intn(3) == 0 {
			base = "."
		}
		srcs = append(srcs, p.Src(base))
		if res.Out != data.OValue {
			all = false
		}
		hows = append(hows, how+"="+res.Out.String())
	}
	src := "{{ isset(" + strings.Join(srcs, ", ") + ") }}"
	kind := "call"
	prefix := ""
	switch {
	case piped:
		src = "{{ " + srcs[0] + " | isset }}"
		kind = "piped"
	case n > 1 && r.Intn(5) == 0 && !strings.Contains(hows[0], "=error"):
		// the first argument is piped in without a slot: it is the first argument, the written ones follow, all are checked
		src = "{{ " + srcs[0] + " | isset(" + strings.Join(srcs[1:], ", ") + ") }}"
		kind = fmt.Sprintf("piped-implicit-first-of-%d", n)
	case r.Intn(4) == 0 && !strings.Contains(hows[0], "=error"):
		// the first argument is piped in and placed with the '_' slot, anywhere in the list
		rest := append([]string{}, srcs[1:]...)
		at := r.Intn(len(rest) + 1)
		rest = append(rest[:at], append([]string{"_"}, rest[at:]...)...)
		src = "{{ " + srcs[0] + " | isset(" + strings.Join(rest, ", ") + ") }}"
		kind = fmt.Sprintf("piped-slot-%d-of-%d", at, len(rest))
	case r.Intn(4) == 0:
		// an earlier isset whose argument runs a template that fails half-way (with a context of its own): isset swallows
		// the failure, and the isset under test still sees the same '.' and variables
		if r.Intn(2) == 0 {
			src = `{{ isset(exec("/swf.jet", "other-context").zq) }}|` + src
			prefix = "false|"
		} else {
			src = `{{ isset(includeIfExists("/swf.jet", r.MapSS).zq) }}|` + src
			prefix = "swfalse|"
		}
		kind = "after-swallowed-failure"
	}
	c.Begin(idx, map[string]interface{}{"template": src, "arguments": hows})
	defer c.End()
	out := jx.Run(map[string]string{"/t.jet": src, "/swf.jet": "sw{{ nosuchvarq.x }}never"}, "/t.jet", vars, root, jx.NoEscape)
	c.Count("isset_calls", 1)
	c.Count("isset_arguments", n)
	c.Count("form_"+strings.SplitN(kind, "-", 2)[0], 1)
	if out.Panic != nil || out.ParseErr != nil || out.Err != nil {
		c.Violation("c17:isset-failed:"+kind+":"+strings.Join(hows, ","), "", fmt.Sprintf("%s -> %s", src, out))
		return
	}
	if out.Out != prefix+fmt.Sprint(all) {
		c.Violation("c17:isset-value:"+kind+":"+strings.Join(hows, ","), "", fmt.Sprintf("%s rendered %q, every argument exists and is non-nil: %v (%v)", src, out.Out, all, hows))
		return
	}
	if n > 1 || !all {
		c.Distinct(kind + "|" + strings.Join(hows, ","))
	}
	if idx%1999 == 0 {
		c.Sample(map[string]interface{}{"template": src, "arguments": hows, "rendered": out.Out})
	}
}

func init() {
	fw.Register(&fw.Property{
		ID:        "C17",
		Technique: "reference-resolver monitor for isset() and the two-value map lookup over the data graphs and access paths of C06",
		Rule: "each case is isset(p1..pn) with 1-4 generated access paths (identifier, field, chain and index forms; variable or context base), each valid, corrupted at a random depth (missing/unexported field, index out of range, key of the wrong kind, absent key, access on a scalar), leading through or ending in nil pointers, nil maps, nil slices, nil interfaces, or indexing a map with an unhashable key; a sixth of the cases use the piped form, a quarter of the rest pipe the first argument into a '_' slot at a random position or follow an isset that swallowed a template failing half-way under a context of its own, a sixth the two-value lookup v, ok := m[k] " +
			"over 30 (map, key) pairs incl. present keys holding zero values, nil pointers and nil interfaces, absent keys, nil maps, named and int key types, in three assignment forms; " +
			"oracle: Execute never fails; isset renders true exactly when the reference resolver finds every argument existing and non-nil; ok equals key presence; non-trivial = several arguments or a false verdict; distinct by argument outcome tuple Since waves 8/9: lookup forms '_, ok = m[k]' (statement, if header, inside range) with ok holding the opposite before; directed cases for nil/non-nil funcs and channels and for keys/indexes boxed in interface{} (range variables, range context, call results).",
		Assumptions: []string{"isset arguments are limited to the expression kinds the documentation names (no calls, no slices)"},
		NCases:      c17n,
		RunCase:     c17run,
		MinDistinct: 300,
	})
}
