package props

import (
	"bytes"
	"fmt"
	"io"
	"math/rand"
	"reflect"
	"runtime"
	"strings"
	"sync"
	"sync/atomic"
	"time"

	"github.com/CloudyKit/jet/v6"
	"github.com/anishathalye/porcupine"
	"verifh/internal/data"
	"verifh/internal/fw"
	"verifh/internal/jx"
	"verifh/internal/prog"
	"verifh/internal/rec"
)

// C11: a Set and its templates are safe for concurrent use and give serial results.

var c11mint int64

// c11mintType returns a struct type that did not exist before (the struct-field cache has to be filled for it).
func c11mintType() reflect.Type {
	n := atomic.AddInt64(&c11mint, 1)
	str := reflect.TypeOf("")
	return reflect.StructOf([]reflect.StructField{
		{Name: "Name", Type: str},
		{Name: "Inner", Type: reflect.TypeOf(data.Inner{}), Anonymous: true},
		{Name: fmt.Sprintf("U%d", n), Type: reflect.TypeOf(0)},
		{Name: "Tag", Type: str},
		// First/Second are promoted twice: through three by-value embeddings (L1.L2.L3) and, shallower, through an embedded
		// pointer - Go's selector rules pick the latter for both names, whichever is looked up first
		{Name: "L1", Type: reflect.TypeOf(data.L1{}), Anonymous: true},
		{Name: "C11promoted", Type: reflect.TypeOf(&c11promoted{}), Anonymous: true},
	})
}

type c11promoted struct{ First, Second string }

// c11fresh returns a value of a struct type no execution has seen yet.
func c11fresh(tag string) interface{} { return c11valueOf(c11mintType(), tag) }

func c11valueOf(t reflect.Type, tag string) interface{} {
	v := reflect.New(t).Elem()
	v.Field(0).SetString("outer-" + tag)
	v.Field(1).Set(reflect.ValueOf(data.Inner{Name: "inner-" + tag, Other: "other-" + tag, Num: 7}))
	v.Field(3).SetString(tag)
	v.Field(4).Set(reflect.ValueOf(data.L1{L2: data.L2{L3: data.L3{First: "deep-first", Second: "deep-second", Third: "third-" + tag}}}))
	v.Field(5).Set(reflect.ValueOf(&c11promoted{First: "pf-" + tag, Second: "ps-" + tag}))
	return v.Interface()
}

var c11sources = map[string]string{
	"/layout.jet":    `<L:{{block title()}}deftitle{{end}}|{{block body(p="dp")}}defbody-{{p}}{{end}}|{{yield foot()}}>`,
	"/lib.jet":       `{{block foot()}}libfoot{{end}}{{block item(v="iv")}}({{v}}){{end}}`,
	"/page.jet":      `{{extends "/layout.jet"}}{{import "/lib.jet"}}{{block title()}}T-{{.Tag}}{{end}}{{block body(p="pp")}}B-{{.Name}}-{{.Other}}-{{p}}{{end}}`,
	"/page2.jet":     `{{extends "/page.jet"}}{{block foot()}}foot2-{{.Tag}}{{end}}`,
	"/ranges.jet":    `{{range i, v := xs}}[{{i}}={{v}}]{{end}}{{range k, v := m}}<{{k}}:{{v}}>{{end}}{{range ints(0, 3)}}{{.}}{{end}}{{range c := ch}}c{{c}}{{end}}{{range xs}}{{range ys}}{{.}}{{end}};{{end}}{{range e := empty}}x{{else}}none{{end}}`,
	"/fields.jet":    `{{.Name}}|{{.Other}}|{{.Tag}}|{{.Num}}|{{ .Deep.First }}|{{isset(.Nope)}}`,
	"/inc.jet":       `i<{{include "/part.jet" .Tag}}|{{include "sub/part2.jet"}}>`,
	"/part.jet":      `part:{{.}}`,
	"/sub/part2.jet": `part2:{{.Tag}}{{yield item(v=.Name)}}`,
	"/try.jet":       `{{try}}a{{.Nope}}b{{catch e}}caught{{end}}|{{try}}ok-{{.Tag}}{{end}}`,
	"/funcs.jet":     `{{ upper(.Tag) }}|{{ .Tag | lower }}|{{ len(xs) }}|{{ yieldfn() }}{{ v := .Name }}{{ v }}`,
	"/global.jet":    `G={{ stable }}`,
	"/esc.jet":       `{{ "<" + .Tag + ">" }}|{{ "<b>" | raw }}`,
	// a page including a template that does not parse: every execution, first or not, concurrent or not, fails alike
	// two libraries defining the same block, a template without blocks of its own importing both, and a page that
	// uses the first library only: loading the former (whenever that happens) changes nothing for the latter
	"/liba.jet":       `{{block tag()}}[A]{{end}}`,
	"/libb.jet":       `{{block tag()}}[B]{{end}}`,
	"/both.jet":       `{{import "/liba.jet"}}{{import "/libb.jet"}}both:{{yield tag()}}`,
	"/pagea.jet":      `{{import "/liba.jet"}}a:{{yield tag()}}`,
	"/row.jet":        `{{.Label}}#{{.N}}`,
	"/mapfresh.jet":   `{{ m := map() }}{{ len(m) }}{{ m.k = .Tag }}{{ len(m) }}{{ m.k }}|{{ len(map()) }}`,
	"/promoted1.jet":  `{{.First}}/{{.Third}}`,
	"/promoted2.jet":  `{{.Second}}/{{.Top}}`,
	"/badinc.jet":     `x<{{include "/unparsable.jet"}}>`,
	"/unparsable.jet": `u{{ if }}v`,
}

var c11stable = []string{"/mapfresh.jet", "/promoted1.jet", "/promoted2.jet", "/pagea.jet", "/both.jet", "/pagea.jet", "/badinc.jet", "/page.jet", "/page2.jet", "/ranges.jet", "/fields.jet", "/inc.jet", "/try.jet", "/funcs.jet", "/global.jet", "/esc.jet"}

func c11vars() jet.VarMap {
	ch := make(chan int, 3)
	ch <- 1
	ch <- 2
	close(ch)
	v := jet.VarMap{}
	v.Set("xs", []string{"a", "b", "c"}).Set("ys", []int{1, 2}).Set("m", map[string]int{"k": 1}).Set("ch", ch).Set("empty", []int{})
	v.Set("yieldfn", func() string { runtime.Gosched(); return "" })
	return v
}

// two distinct struct types that print the same name (declared locally in two functions) with their fields in another
// order: what one execution learnt about the first must not be applied to the second
func c11rowA() interface{} {
	type row struct {
		Label string
		N     int
	}
	return row{"report", 3}
}

func c11rowB() interface{} {
	type row struct {
		N     int
		Extra bool
		Label string
	}
	return row{99, true, "other"}
}

func c11exec(t *jet.Template, tag string) string { return c11execData(t, c11fresh(tag)) }

func c11execData(t *jet.Template, data interface{}) string {
	var b bytes.Buffer
	res := jx.ExecW(t, &b, c11vars(), data)
	if res.Panic != nil {
		return fmt.Sprintf("PANIC:%v", res.Panic)
	}
	if res.Err != nil {
		return b.String() + "|ERR:" + res.Err.Error()
	}
	return b.String()
}

func c11obs(o prog.Observed) string {
	return fmt.Sprintf("out=%q err=%v parse=%v panic=%v probes=%v vars=%v", o.Out, o.Err, o.ParseErr, o.Panic, o.ProbeLog, o.VarsAfter)
}

type c11regIn struct {
	Key   string
	Write bool
	Val   string
}

var c11model = porcupine.Model{
	Partition: func(h []porcupine.Operation) [][]porcupine.Operation {
		m := map[string][]porcupine.Operation{}
		var keys []string
		for _, op := range h {
			k := op.Input.(c11regIn).Key
			if _, ok := m[k]; !ok {
				keys = append(keys, k)
			}
			m[k] = append(m[k], op)
		}
		var out [][]porcupine.Operation
		for _, k := range keys {
			out = append(out, m[k])
		}
		return out
	},
	Init: func() interface{} { return "init" },
	Step: func(st, in, out interface{}) (bool, interface{}) {
		e := in.(c11regIn)
		if e.Write {
			return true, e.Val
		}
		return out.(string) == st.(string), st
	},
	DescribeOperation: func(in, out interface{}) string {
		e := in.(c11regIn)
		if e.Write {
			return fmt.Sprintf("write(%s,%s)", e.Key, e.Val)
		}
		return fmt.Sprintf("read(%s)->%v", e.Key, out)
	},
}

func c11wait(wg *sync.WaitGroup, done chan struct{}) { wg.Wait(); close(done) }

func c11n(tier string) int {
	if tier == "thorough" {
		return 120
	}
	return 8
}

func c11run(c *fw.Ctx, idx int) {
	r := c.Rand(idx, "c11")
	goroutines, ops := 16, 120
	if c.Tier == "thorough" {
		goroutines, ops = 32, 400
	}
	c.Begin(idx, map[string]interface{}{"round": idx, "goroutines": goroutines, "ops_per_goroutine": ops})
	defer c.End()

	// the first executions of this process, several at once (each on a Set of its own): whatever jet sets up on first use
	{
		var fwg sync.WaitGroup
		gate := make(chan struct{})
		first := make([]string, 4)
		for g := 0; g < 4; g++ {
			fwg.Add(1)
			go func(g int) {
				defer fwg.Done()
				fs, _ := jx.NewSet(map[string]string{"/first.jet": `{{ len("abc") }}{{ upper("x") }}{{ isset(.) }}{{ range ints(0, 2) }}{{ . }}{{ end }}`})
				<-gate
				first[g] = jx.RunSet(fs, "/first.jet", nil, "d").String()
			}(g)
		}
		close(gate)
		fwg.Wait()
		for _, f := range first {
			if f != first[0] || !strings.Contains(f, "3Xtrue01") {
				c.Violation("c11:first-executions-of-the-process-differ", "", fmt.Sprint(first))
				return
			}
		}
	}

	// serial expectations on a separate Set built from the same sources
	refSet, _ := jx.NewSet(c11sources)
	refSet.AddGlobal("stable", "stable-value")
	want := map[string]string{}
	for _, name := range c11stable {
		t, err := refSet.GetTemplate(name)
		if err != nil {
			c.Violation("c11:harness:reference-load", "", err.Error())
			return
		}
		want[name] = c11exec(t, "TAG")
	}

	// the Set under test: recording loader and cache that yield inside calls to widen windows
	inner := jet.NewInMemLoader()
	for k, v := range c11sources {
		inner.Set(k, v)
	}
	nfresh := 6
	for i := 0; i < nfresh; i++ { // templates loaded for the first time during the round, by several goroutines at once
		inner.Set(fmt.Sprintf("/fresh/p%d.jet", i), strings.Replace(c11sources["/page2.jet"], "foot2", fmt.Sprintf("fresh%d", i), 1))
	}
	yield := func(op, p string) {
		switch (len(p) + len(op)) % 3 {
		case 0:
			runtime.Gosched()
		case 1:
			time.Sleep(time.Duration(len(p)%5) * 20 * time.Microsecond)
		}
	}
	ld := rec.NewLoader(inner)
	ld.Hook = yield
	ch := rec.NewCache()
	ch.Hook = yield
	var set *jet.Set
	if idx%2 == 0 {
		set = jet.NewSet(ld, jet.WithCache(ch))
	} else {
		set = jet.NewSet(ld)
	}
	set.AddGlobal("stable", "stable-value")
	for k := 0; k < 3; k++ {
		set.AddGlobal(fmt.Sprintf("g%d", k), "init")
		inner.Set(fmt.Sprintf("/g%d.jet", k), fmt.Sprintf("{{ g%d }}", k))
	}
	// development-mode Set over an editable loader: template paths are registers
	devInner := jet.NewInMemLoader()
	for k := 0; k < 3; k++ {
		devInner.Set(fmt.Sprintf("/dev%d.jet", k), "init")
	}
	devLd := rec.NewLoader(devInner) // yields/sleeps at the start of Exists and Open: edits slip in between the two
	devLd.Hook = yield
	devSet := jet.NewSet(devLd, jet.InDevelopmentMode())
	// a Set with custom action and comment delimiters (every parse configures a lexer of its own)
	delimSet := jet.NewSet(jet.NewInMemLoader(), jet.WithDelims("[[", "]]"), jet.WithCommentDelims("[*", "*]"))
	const delimSrc = `[* a note *]hello [[ "w" + "orld" ]][* {{ not an action }} *]! {{literal}} {* literal *}`
	const delimWant = `hello world! {{literal}} {* literal *}`

	// generated programs (the C01/C07/C13 generator with everything switched on), each on a Set of its own that all
	// goroutines share and that has loaded nothing yet; expected = what the same program yields alone on another Set
	const nprog = 5
	type c11entry struct {
		p    *prog.Program
		want prog.Observed
	}
	var progEntries [][]c11entry // per program: the main template and up to two other files executed as entry points
	var progSets []*jet.Set
	for len(progEntries) < nprog {
		cfg := prog.Cfg{Items: 3, MaxDepth: 3, Ifs: true, Ranges: true, Vars: true, Blocks: true, MultiFile: true, Includes: true, Try: true, Fails: r.Intn(2) == 0, Ctx: true,
			ExecNoReturn: true, IncludeIfExists: true, SharedNames: true, IncludeLoop: true, IssetSwallow: true, Writers: []string{"raw", "unsafe", "safeHtml"}}
		p, _ := prog.Gen(r, cfg)
		if m := prog.Eval(p); m.Unspecified != "" {
			continue
		}
		var es []c11entry
		mains := []string{p.Main}
		for k := 0; k < 2 && len(p.Files) > 1; k++ {
			if f := p.Files[r.Intn(len(p.Files))].Path; f != p.Main {
				mains = append(mains, f)
			}
		}
		for _, mn := range mains {
			q := *p
			q.Main = mn
			if m := prog.Eval(&q); m.Unspecified != "" {
				continue
			}
			es = append(es, c11entry{&q, q.Run(prog.RunOpts{})})
		}
		progEntries = append(progEntries, es)
		progSets = append(progSets, p.NewSet(false))
	}

	// struct types minted now and met for the first time by several goroutines at about the same moment:
	// consecutive executions (by whichever goroutines) share one type
	sharedTypes := make([]reflect.Type, goroutines*ops/goroutines+1)
	for i := range sharedTypes {
		sharedTypes[i] = c11mintType()
	}
	var sharedCtr int64

	start := time.Now()
	now := func() int64 { return int64(time.Since(start)) }
	var mu sync.Mutex
	var hist []porcupine.Operation
	var mismatches []string
	counts := map[string]int{}
	record := func(op porcupine.Operation) {
		mu.Lock()
		hist = append(hist, op)
		mu.Unlock()
	}
	var uniq int64
	var wg sync.WaitGroup
	seeds := make([]int64, goroutines)
	for g := range seeds {
		seeds[g] = r.Int63()
	}
	for g := 0; g < goroutines; g++ {
		wg.Add(1)
		go func(g int) {
			defer wg.Done()
			rr := rand.New(rand.NewSource(seeds[g]))
			local := map[string]int{}
			for i := 0; i < ops; i++ {
				switch k := rr.Intn(25); {
				case k < 8: // GetTemplate + Execute of a stable template
					name := c11stable[rr.Intn(len(c11stable))]
					t, err := set.GetTemplate(name)
					local["GetTemplate+Execute"]++
					got := "LOADERR"
					if err == nil {
						k := int(atomic.AddInt64(&sharedCtr, 1)) / goroutines
						if k < len(sharedTypes) && rr.Intn(3) != 0 {
							got = c11execData(t, c11valueOf(sharedTypes[k], "TAG"))
							local["executions on a struct type first met concurrently"]++
						} else {
							got = c11exec(t, "TAG")
						}
					} else {
						got += ":" + err.Error()
					}
					if got != want[name] {
						mu.Lock()
						mismatches = append(mismatches, fmt.Sprintf("%s concurrently rendered %q, alone it renders %q", name, got, want[name]))
						mu.Unlock()
					}
				case k < 9 && i%7 == 3: // same-named struct types
					local["Execute over same-named distinct struct types"]++
					if t, err := set.GetTemplate("/row.jet"); err == nil {
						a, b := c11execData(t, c11rowA()), c11execData(t, c11rowB())
						if a != "report#3" || b != "other#99" {
							mu.Lock()
							mismatches = append(mismatches, fmt.Sprintf("/row.jet over two struct types both named row rendered %q and %q, want \"report#3\" and \"other#99\"", a, b))
							mu.Unlock()
						}
					}
				case k < 11: // first-time loads colliding on the same name
					f := rr.Intn(nfresh)
					name := fmt.Sprintf("/fresh/p%d.jet", f)
					t, err := set.GetTemplate(name)
					local["first-time GetTemplate+Execute"]++
					exp := strings.Replace(want["/page2.jet"], "foot2", fmt.Sprintf("fresh%d", f), 1)
					got := "LOADERR"
					if err == nil {
						got = c11exec(t, "TAG")
					}
					if got != exp {
						mu.Lock()
						mismatches = append(mismatches, fmt.Sprintf("%s (first-time load) rendered %q, alone it renders %q", name, got, exp))
						mu.Unlock()
					}
				case k < 13 && i%2 == 1: // Parse + Execute on the Set with custom delimiters
					local["Parse+Execute (custom delimiters)"]++
					t, err, pan := jx.Parse(delimSet, fmt.Sprintf("/d/%d-%d.jet", g, i), delimSrc)
					got := fmt.Sprintf("PARSEERR %v %v", err, pan)
					if err == nil && pan == nil {
						got = c11exec(t, "TAG")
					}
					if got != delimWant {
						mu.Lock()
						mismatches = append(mismatches, fmt.Sprintf("template with custom delimiters rendered %q, alone %q", got, delimWant))
						mu.Unlock()
					}
				case k < 13: // Parse + Execute
					local["Parse+Execute"]++
					t, err := set.Parse(fmt.Sprintf("/parsed/%d-%d.jet", g, i), c11sources["/page2.jet"])
					got := "PARSEERR"
					if err == nil {
						got = c11exec(t, "TAG")
					}
					if got != want["/page2.jet"] {
						mu.Lock()
						mismatches = append(mismatches, fmt.Sprintf("parsed copy of /page2.jet rendered %q, alone %q", got, want["/page2.jet"]))
						mu.Unlock()
					}
				case k < 15: // AddGlobal = write
					key := fmt.Sprintf("g%d", rr.Intn(3))
					val := fmt.Sprintf("v%d", atomic.AddInt64(&uniq, 1))
					local["AddGlobal"]++
					t0 := now()
					set.AddGlobal(key, val)
					record(porcupine.Operation{ClientId: g, Input: c11regIn{Key: key, Write: true, Val: val}, Call: t0, Output: "", Return: now()})
				case k < 16: // LookupGlobal = read
					key := fmt.Sprintf("g%d", rr.Intn(3))
					local["LookupGlobal"]++
					if rr.Intn(4) == 0 {
						// a name that was never added (the "look it up, add it if absent" idiom starts like this)
						if v, ok := set.LookupGlobal("never-added"); ok {
							mu.Lock()
							mismatches = append(mismatches, fmt.Sprintf("LookupGlobal of a name never added = %v, %v", v, ok))
							mu.Unlock()
						}
					}
					t0 := now()
					v, _ := set.LookupGlobal(key)
					out := fmt.Sprint(v)
					if rv, ok := v.(reflect.Value); ok && rv.IsValid() {
						out = fmt.Sprint(rv.Interface())
					}
					record(porcupine.Operation{ClientId: g, Input: c11regIn{Key: key}, Call: t0, Output: out, Return: now()})
				case k < 18: // an execution rendering a global exactly once = read
					kk := rr.Intn(3)
					key := fmt.Sprintf("g%d", kk)
					local["Execute reading a global"]++
					t, err := set.GetTemplate(fmt.Sprintf("/g%d.jet", kk))
					if err != nil {
						continue
					}
					t0 := now()
					out := c11exec(t, "TAG")
					record(porcupine.Operation{ClientId: g, Input: c11regIn{Key: key}, Call: t0, Output: out, Return: now()})
				case k < 19: // loader edit (development mode) = write
					key := fmt.Sprintf("/dev%d.jet", rr.Intn(3))
					if rr.Intn(4) == 0 {
						// deleting the template is a write too: from then on lookups fail (a lookup overlapping the deletion
						// may fail between Exists and Open: an error, never a crash)
						local["InMemLoader.Delete (dev mode)"]++
						t0 := now()
						devInner.Delete(key)
						record(porcupine.Operation{ClientId: g, Input: c11regIn{Key: key, Write: true, Val: "LOADERR"}, Call: t0, Output: "", Return: now()})
						continue
					}
					val := fmt.Sprintf("w%d", atomic.AddInt64(&uniq, 1))
					local["InMemLoader.Set (dev mode)"]++
					t0 := now()
					devInner.Set(key, val)
					record(porcupine.Operation{ClientId: g, Input: c11regIn{Key: key, Write: true, Val: val}, Call: t0, Output: "", Return: now()})
				case k >= 20: // a generated program on its shared Set
					pi := rr.Intn(nprog)
					local["generated program GetTemplate+Execute"]++
					e := progEntries[pi][rr.Intn(len(progEntries[pi]))]
					o := e.p.Run(prog.RunOpts{Set: progSets[pi]})
					if got, exp := c11obs(o), c11obs(e.want); got != exp {
						mu.Lock()
						mismatches = append(mismatches, fmt.Sprintf("generated program %d entry %s: concurrently %.600s, alone on a Set of its own %.600s; files %v", pi, e.p.Main, got, exp, e.p.Sources(false)))
						mu.Unlock()
					}
				default: // dev-mode GetTemplate + Execute = read
					key := fmt.Sprintf("/dev%d.jet", rr.Intn(3))
					local["dev-mode GetTemplate+Execute"]++
					t0 := now()
					out := "LOADERR"
					t, err, pan := jx.Get(devSet, key)
					if pan != nil {
						mu.Lock()
						mismatches = append(mismatches, fmt.Sprintf("GetTemplate(%s) in development mode panicked while the loader was being edited: %v", key, pan))
						mu.Unlock()
					} else if err == nil {
						out = c11exec(t, "TAG")
					}
					record(porcupine.Operation{ClientId: g, Input: c11regIn{Key: key}, Call: t0, Output: out, Return: now()})
				}
			}
			mu.Lock()
			for k, v := range local {
				counts[k] += v
			}
			mu.Unlock()
		}(g)
	}
	// wait for the round; a round whose goroutines are all parked on jet's own locks will never end (see c11blocked)
	await := func(wg *sync.WaitGroup, n int) bool {
		finished := make(chan struct{})
		go c11wait(wg, finished)
		for {
			select {
			case <-finished:
				return true
			case <-time.After(10 * time.Second):
				if stack, k := c11blocked(); k > 0 {
					c.Count("deadlocked_rounds", 1)
					c.Violation("c11:deadlock", "", map[string]interface{}{"goroutines_parked_on_locks_inside_jet": k, "nothing_else_running_of": n, "first_stack": stack})
					return false
				}
			}
		}
	}
	if !await(&wg, goroutines) {
		return
	}
	// loader storm: lookups on the development-mode Set (every one goes to the loader: Exists, then Open) against edits of
	// other entries of the same loader in tight loops, no yields: the interleavings inside the loader's own critical sections
	{
		devInner.Set("/stormfixed.jet", "storm {{ 1 + 1 }}")
		var swg sync.WaitGroup
		var smu sync.Mutex
		lookups := 0
		iters := 300
		if c.Tier == "thorough" {
			iters = 1500
		}
		for g := 0; g < 12; g++ {
			swg.Add(1)
			go func(g int) {
				defer swg.Done()
				for i := 0; i < iters; i++ {
					if g%3 == 2 {
						p := fmt.Sprintf("/storm/e%d.jet", (g+i)%5)
						if i%2 == 0 {
							devInner.Set(p, "edit")
						} else {
							devInner.Delete(p)
						}
						continue
					}
					var out string
					if g%3 == 0 {
						t, err := devSet.GetTemplate("/stormfixed.jet")
						if err != nil {
							out = "ERROR " + err.Error()
						} else {
							out = c11exec(t, "S")
						}
					} else if devInner.Exists("/stormfixed.jet") {
						rc, err := devInner.Open("/stormfixed.jet")
						if err != nil {
							out = "ERROR " + err.Error()
						} else {
							b, _ := io.ReadAll(rc)
							rc.Close()
							out = strings.Replace(string(b), "{{ 1 + 1 }}", "2", 1)
						}
					} else {
						out = "ERROR Exists reports false"
					}
					smu.Lock()
					lookups++
					if out != "storm 2" && len(mismatches) < 20 {
						mismatches = append(mismatches, fmt.Sprintf("loader storm: /stormfixed.jet (never edited) gave %q", out))
					}
					smu.Unlock()
				}
			}(g)
		}
		if !await(&swg, 12) {
			return
		}
		c.Count("op:storm-lookup", lookups)
		c.Eval(lookups)
	}
	for k, v := range counts {
		c.Count("op:"+k, v)
		c.Eval(v)
	}
	c.Count("struct_types_minted", int(atomic.LoadInt64(&c11mint)))
	c.Count("register_history_events", len(hist))
	// overlapping operation pairs (evidence that interleavings were actually produced)
	overlap := 0
	for i := 0; i < len(hist) && i < 4000; i++ {
		for j := i + 1; j < len(hist) && j < i+60; j++ {
			if hist[i].Call < hist[j].Return && hist[j].Call < hist[i].Return {
				overlap++
			}
		}
	}
	c.Count("overlapping_register_operation_pairs", overlap)
	first := 0
	for _, call := range ld.Log.Snapshot() {
		if call.Op == "Open" && strings.HasPrefix(call.Path, "/fresh/") {
			first++
		}
	}
	c.Count("first_time_loads_performed", first)
	if len(mismatches) > 0 {
		c.Violation("c11:concurrent-execute-differs-from-serial", "", map[string]interface{}{"count": len(mismatches), "first": mismatches[0]})
		return
	}
	res, info := porcupine.CheckOperationsVerbose(c11model, hist, 60*time.Second)
	switch res {
	case porcupine.Illegal:
		c.Violation("c11:register-history-not-linearizable", "", map[string]interface{}{"events": len(hist), "partial_linearizations": fmt.Sprint(info.PartialLinearizations())[:400]})
		return
	case porcupine.Unknown:
		c.Count("porcupine_timeouts", 1)
	default:
		c.Count("porcupine_ok", 1)
	}
	c.Distinct(fmt.Sprintf("round|%d|%d|%d", idx, overlap/50, first))
	c.Sample(map[string]interface{}{"round": idx, "ops": counts, "register_events": len(hist), "overlapping_pairs": overlap, "first_time_loads": first, "porcupine": fmt.Sprint(res)})
}

func init() {
	fw.Register(&fw.Property{
		ID:        "C11",
		Technique: "Go race detector over a concurrent workload + serial-result comparison of every concurrent Execute + porcupine linearizability check of recorded global/dev-mode-template register histories",
		Rule: "each case is one round: 16 (thorough 32) goroutines issue 120 (400) random operations on one Set: GetTemplate+Execute of 10 stable templates (one of them includes a template that does not parse) (extends/import/blocks, ranges of every ranger kind incl. nested, field access on struct types minted per execution or shared by ~16 consecutive executions of different goroutines (first met concurrently), include, try, functions, escaping) and of 5 generated template sets per round, each through its main template and up to two other entry points (the program generator with blocks, includes, try, failures, SafeWriters, exec switched on; each on a cold Set of its own shared by all goroutines), first-time loads of 6 templates requested by several goroutines at once, Parse+Execute, AddGlobal/LookupGlobal/executions rendering a global, " +
			"Parse+Execute on a Set with custom action and comment delimiters, and on a development-mode Set InMemLoader.Set/Delete versus GetTemplate+Execute; the recording loader/cache yield or sleep 0-80us inside every call; oracles: zero race-detector reports and no fatal error (worker death), every concurrent Execute on unedited inputs equals the output computed alone beforehand, " +
			"the timed history of writes (AddGlobal, loader Set with unique tokens) and reads (LookupGlobal, rendering executions) is linearizable as one register per key (porcupine, 60 s timeout = inconclusive); non-trivial/distinct = rounds (each with its own interleavings; overlapping operation pairs and first-time loads are reported) Since waves 8/9: every minted struct type carries two names promoted both by value (depth 3) and through an embedded pointer (depth 1), read by two templates in either order; each round ends with a loader storm (lookups on the development-mode Set and direct loader reads against Set/Delete of other entries in tight loops); a round that does not finish is examined through stop-the-world goroutine snapshots every 10 s: all unfinished workload goroutines parked on sync primitives inside jet = c11:deadlock.",
		Assumptions: []string{"interleavings are those the scheduler produced in this run (reported as overlapping pairs), not all interleavings", "non-development first loads are not modelled as registers (two concurrent first loads may cache either version)"},
		NCases:      c11n,
		RunCase:     c11run,
		Race:        true,
		MinDistinct: 2,
		Batches:     func(tier string) int { return c11n(tier) },
		MaxParallel: 4,
		Inconclusive: func(cnt map[string]int64) string {
			if cnt["porcupine_timeouts"] > 0 {
				return fmt.Sprintf("porcupine timed out on %d histories", cnt["porcupine_timeouts"])
			}
			if cnt["overlapping_register_operation_pairs"] == 0 {
				return "no overlapping operations were observed"
			}
			return ""
		},
	})
}
