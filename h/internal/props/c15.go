package props

import (
	"fmt"
	"math/rand"
	"os"
	"path"
	"path/filepath"
	"strings"

	"github.com/CloudyKit/jet/v6"
	"verifh/internal/fw"
	"verifh/internal/jx"
	"verifh/internal/rec"
)

// C15: loaders only ever see clean absolute paths; relative names resolve against the referrer.

var c15dirs = []string{"/", "/a/", "/a/b/", "/a/b/c/", "/s/", "/a/s/", "/a/b/s/"}
var c15extLists = [][]string{
	{"", ".jet", ".html.jet", ".jet.html"},
	{".jet"},
	{".tpl", ".jet"},
	{"", ".html"},
	{".jet", ""},
	{"_tpl", ".jet", "-partial.jet"}, // an extension is whatever follows the name: no dot is implied
	{"jet", ".jet"},
}
var c15entries = []string{"get", "extends", "import", "include", "include-computed-ctx", "include-computed-var", "exec", "includeIfExists", "exec-computed", "import-after-extends"}

func c15clean(p string) bool {
	return strings.HasPrefix(p, "/") && path.Clean(p) == p
}

// c15canon is the independent statement of the resolution rule.
func c15canon(baseDir, spelling string) string {
	if strings.HasPrefix(spelling, "/") {
		return path.Clean(spelling)
	}
	return path.Clean(baseDir + "/" + spelling)
}

func c15rel(fromDir, to string) string {
	f := strings.Split(strings.Trim(fromDir, "/"), "/")
	if strings.Trim(fromDir, "/") == "" {
		f = nil
	}
	t := strings.Split(strings.Trim(to, "/"), "/")
	i := 0
	for i < len(f) && i < len(t)-1 && f[i] == t[i] {
		i++
	}
	var parts []string
	for j := i; j < len(f); j++ {
		parts = append(parts, "..")
	}
	parts = append(parts, t[i:]...)
	return strings.Join(parts, "/")
}

func c15decorate(r *rand.Rand, s string) string {
	abs := strings.HasPrefix(s, "/")
	parts := strings.Split(strings.TrimPrefix(s, "/"), "/")
	var out []string
	for _, p := range parts {
		switch r.Intn(10) {
		case 0:
			out = append(out, ".")
		case 1:
			out = append(out, "")
		case 2:
			out = append(out, "zz", "..")
		case 3:
			out = append(out, "zz", ".", "yy", "..", "..")
		}
		out = append(out, p)
	}
	res := strings.Join(out, "/")
	if abs {
		res = "/" + res
		if r.Intn(6) == 0 {
			res = "/" + res
		}
		if r.Intn(6) == 0 {
			res = "/../.." + res
		}
	} else {
		switch r.Intn(8) {
		case 0:
			res = "./" + res
		case 1:
			res = "././" + res
		}
	}
	switch r.Intn(8) {
	case 0:
		res += "/"
	case 1:
		res += "/."
	case 2:
		res += "//"
	}
	return res
}

func c15n(tier string) int {
	if tier == "thorough" {
		return 2000000
	}
	return 30000
}

type c15case struct {
	Entry    string            `json:"entry"`
	Exts     []string          `json:"extensions"`
	RefDir   string            `json:"referrer_dir"`
	Spelling string            `json:"spelling"`
	Files    map[string]string `json:"files,omitempty"`
	Canary   bool              `json:"canary,omitempty"`
	// ParseAs: the referring template is not loaded but handed to Set.Parse under this (unclean, possibly relative) name
	ParseAs string `json:"referrer_parsed_as,omitempty"`
	Dev     bool   `json:"development_mode,omitempty"`
}

const c15canaryToken = "CANARY-7731-OUTSIDE-ROOT"

func c15partBody(p string) string {
	return "[P:" + p + "]{{block mark()}}[B:" + p + "]{{end}}{{return \"[R:" + p + "]\"}}"
}

func c15refBody(entry, spelling string) string {
	q := fmt.Sprintf("%q", spelling)
	switch entry {
	case "extends":
		return "{{extends " + q + "}}IGNORED"
	case "import":
		return "{{import " + q + "}}{{yield mark()}}"
	case "import-after-extends": // the layout lives in another directory; the import still resolves against THIS file
		return "{{extends \"/zl/base\"}}{{import " + q + "}}"
	case "include":
		return "<{{include " + q + "}}>"
	case "include-computed-ctx":
		return "<{{include .}}>"
	case "include-computed-var":
		return "<{{include \"\" + name}}>"
	case "exec":
		return "<{{exec(" + q + ")}}>"
	case "exec-computed":
		return "<{{exec(name)}}>"
	case "includeIfExists":
		return "<{{includeIfExists(" + q + ")}}>"
	}
	return ""
}

func c15run(c *fw.Ctx, idx int) {
	r := c.Rand(idx, "c15")
	if idx%16 == 15 {
		c15canary(c, idx, r)
		return
	}
	if idx%16 == 14 {
		c15sequence(c, idx, r)
		return
	}
	cs := c15case{Entry: c15entries[idx%len(c15entries)], Exts: c15extLists[r.Intn(len(c15extLists))], RefDir: c15dirs[r.Intn(4)]}
	if cs.Entry == "get" {
		cs.RefDir = "/"
	}
	// files: a "part" in every directory, stored under one extension of the list (sometimes two)
	files := map[string]string{}
	for _, d := range c15dirs {
		e := cs.Exts[r.Intn(len(cs.Exts))]
		p := d + "part" + e
		files[p] = c15partBody(p)
		if r.Intn(4) == 0 {
			e2 := cs.Exts[r.Intn(len(cs.Exts))]
			files[d+"part"+e2] = c15partBody(d + "part" + e2)
		}
	}
	// the spelling under test
	targetDir := c15dirs[r.Intn(len(c15dirs))]
	target := targetDir + "part"
	if r.Intn(3) == 0 { // spell the extension explicitly (works when "" is in the list)
		for p := range files {
			if strings.HasPrefix(p, target) && path.Dir(p)+"/" == strings.Replace(targetDir+"x", "/x", "/", 1) {
				target = p
				break
			}
		}
	}
	if r.Intn(12) == 0 {
		target = targetDir + "missing"
	}
	relBase := "/"
	switch cs.Entry {
	case "extends", "import", "include", "include-computed-ctx", "include-computed-var", "import-after-extends":
		relBase = cs.RefDir
	}
	var sp string
	if r.Intn(2) == 0 {
		sp = target
	} else {
		sp = c15rel(relBase, target)
	}
	if r.Intn(3) != 0 {
		sp = c15decorate(r, sp)
	}
	if r.Intn(40) == 0 {
		sp = []string{"", ".", "/", "..", "//"}[r.Intn(5)]
	}
	if r.Intn(16) == 0 {
		// backslashes are ordinary characters of a name here (the separator is '/'): a spelling with dot segments separated
		// by backslashes is one odd segment, it never turns into dot segments after the name was cleaned
		sp = []string{`..\..\..\part`, `sub\..\part`, `..\part`, `.\part`, `a\b`, `\part`, `s\..\..\..\..\part`}[r.Intn(7)]
		if r.Intn(3) == 0 {
			sp = "/" + sp
		}
	}
	if r.Intn(16) == 1 {
		// white space is an ordinary character of a name: a last segment made of it (or a dot segment followed by it) stays a
		// segment of its own, it is not trimmed away after the name was cleaned
		sp = []string{"s/ ", "../a/.. ", "s/\n", "/a/.\u00a0", "/a/b/ ", "s/\t", " ", "/ ", "/a/b/..\t", "s/. "}[r.Intn(10)]
	}
	cs.Spelling = sp
	cs.Dev = idx%4 == 1
	refBase := cs.RefDir + "ref"
	refPath := refBase + cs.Exts[0]
	if cs.Entry != "get" {
		files[refPath] = c15refBody(cs.Entry, sp)
	}
	if cs.Entry == "import-after-extends" {
		files["/zl/base"+cs.Exts[0]] = "L{{yield mark()}}"
		files["/zl/part"+cs.Exts[0]] = c15partBody("/zl/part" + cs.Exts[0])
	}
	if cs.Entry != "get" && r.Intn(4) == 0 {
		// Set.Parse(name, source): the name resolves against the root like any other, relative or not
		as := refPath
		switch r.Intn(4) {
		case 0:
			as = strings.TrimPrefix(refPath, "/")
		case 1:
			as = "../" + strings.TrimPrefix(refPath, "/")
		case 2:
			as = c15decorate(r, strings.TrimPrefix(refPath, "/"))
		case 3:
			as = c15decorate(r, refPath)
		}
		if c15canon("/", as) == refPath && path.Base(as) == path.Base(refPath) { // Set.Parse rejects names without a base name
			cs.ParseAs = as
		}
	}
	cs.Files = files
	c.Begin(idx, cs)
	defer c.End()

	inner := jet.NewInMemLoader()
	for k, v := range files {
		inner.Set(k, v)
	}
	ld := rec.NewLoader(inner)
	ch := rec.NewCache()
	sopts := []jet.Option{jet.WithCache(ch), jet.WithTemplateNameExtensions(cs.Exts), jx.NoEscape}
	if cs.Dev {
		sopts = append(sopts, jet.InDevelopmentMode())
		c.Count("development_mode_sets", 1)
	}
	set := jet.NewSet(ld, sopts...)

	// expectation, from the spelling alone
	base := c15canon(relBase, sp)
	found := ""
	var probes []string
	for _, e := range cs.Exts {
		probes = append(probes, base+e)
		if _, ok := files[base+e]; ok {
			found = base + e
			break
		}
	}
	var res jx.Res
	vars := jet.VarMap{}
	vars.Set("name", sp)
	var tmplName string
	if cs.Entry == "get" {
		t, err, pan := jx.Get(set, sp)
		res = jx.Res{ParseErr: err, Panic: pan}
		if err == nil && pan == nil {
			tmplName = t.Name
			res = jx.Exec(t, vars, nil)
		}
	} else if cs.ParseAs != "" {
		t, err, pan := jx.Parse(set, cs.ParseAs, files[refPath])
		res = jx.Res{ParseErr: err, Panic: pan}
		if err == nil && pan == nil {
			res = jx.Exec(t, vars, sp)
		}
		c.Count("referrers_given_to_Set.Parse", 1)
	} else {
		t, err, pan := jx.Get(set, refBase)
		res = jx.Res{ParseErr: err, Panic: pan}
		if err == nil && pan == nil {
			res = jx.Exec(t, vars, sp)
		}
	}
	c.Count("lookups", 1)
	c.Count("entry_"+cs.Entry, 1)
	sig := func(k string) string { return "c15:" + k + ":" + cs.Entry }
	// 1. every path handed to loader and cache is clean and absolute
	var exists []string
	for _, call := range ld.Log.Snapshot() {
		c.Count("loader_paths_seen", 1)
		if !c15clean(call.Path) {
			c.Violation(sig("unclean-path-to-loader"), "", fmt.Sprintf("Loader.%s(%q)", call.Op, call.Path))
			return
		}
		if call.Op == "Exists" && !(cs.Entry == "import-after-extends" && strings.HasPrefix(call.Path, "/zl/base")) {
			exists = append(exists, call.Path)
		}
	}
	for _, call := range ch.Log.Snapshot() {
		c.Count("cache_paths_seen", 1)
		if !c15clean(call.Path) {
			c.Violation(sig("unclean-path-to-cache"), "", fmt.Sprintf("Cache.%s(%q)", call.Op, call.Path))
			return
		}
	}
	if res.Panic != nil {
		c.Violation(sig("panic"), "", fmt.Sprint(res.Panic))
		return
	}
	// 2. the loader was probed for exactly the canonical path + extensions in order
	if cs.Entry != "get" && cs.ParseAs == "" {
		if len(exists) == 0 || exists[0] != refPath {
			c.Violation(sig("referrer-lookup"), "", fmt.Sprintf("Exists calls %v, expected to start with %q", exists, refPath))
			return
		}
		exists = exists[1:]
	}
	if fmt.Sprint(exists) != fmt.Sprint(probes) {
		c.Violation(sig("wrong-path-requested"), "", fmt.Sprintf("spelling %q from %q must be requested as %v, loader was asked Exists%v", sp, relBase, probes, exists))
		return
	}
	// 3. the output shows which file was used
	want, wantErr := "", false
	switch {
	case found == "" && cs.Entry == "includeIfExists":
		want = "<>"
	case found == "":
		wantErr = true
	case cs.Entry == "get" || cs.Entry == "extends":
		want = "[P:" + found + "][B:" + found + "]"
	case cs.Entry == "import":
		want = "[B:" + found + "]"
	case cs.Entry == "import-after-extends":
		want = "L[B:" + found + "]"
	case cs.Entry == "exec" || cs.Entry == "exec-computed":
		want = "<[R:" + found + "]>"
	default:
		want = "<[P:" + found + "][B:" + found + "]>"
	}
	if wantErr != res.Failed() || (!wantErr && res.Out != want) {
		c.Violation(sig("wrong-template-used"), "", fmt.Sprintf("want output %q (error expected: %v), got %s", want, wantErr, res))
		return
	}
	if cs.Entry == "get" && found != "" && tmplName != found {
		c.Violation(sig("template-name"), "", fmt.Sprintf("Template.Name=%q, canonical path %q", tmplName, found))
	}
	if sp != base {
		c.Distinct(cs.Entry + "|" + cs.RefDir + "|" + c15shape(sp) + "|" + fmt.Sprint(len(cs.Exts)))
	}
	if idx%701 == 0 {
		c.Sample(map[string]interface{}{"entry": cs.Entry, "referrer_dir": cs.RefDir, "spelling": sp, "requested": probes, "used": found, "output": res.Out})
	}
}

func c15shape(sp string) string {
	s := sp
	for _, w := range []string{"part", "missing", "zz", "yy", "jet", "html", "tpl", "a", "b", "c", "s"} {
		s = strings.ReplaceAll(s, w, "w")
	}
	return s
}

// c15sequence: several references on ONE Set, from directories and with names whose concatenations collide
// ("/a"+"bx.jet" == "/ab"+"x.jet"): the same spelling must keep resolving against its own referrer whatever
// was resolved before (the same template is always requested under the same path).
func c15sequence(c *fw.Ctx, idx int, r *rand.Rand) {
	dirs := []string{"/", "/a/", "/ab/", "/a/b/", "/abc/"}
	names := []string{"x", "bx", "b/x", "ax", "c/x", "bc/x", "abc/x", "../x", "../ax"}
	files := map[string]string{}
	type ref struct{ dir, name, path string }
	var refs []ref
	for _, d := range dirs {
		for k, n := range names {
			target := c15canon(d, n+".jet")
			files[target] = "[F:" + target + "]"
			rp := fmt.Sprintf("%sref%d.jet", d, k)
			files[rp] = fmt.Sprintf("<{{include %q}}>", n+".jet")
			refs = append(refs, ref{d, n, rp})
		}
	}
	dev := idx%32 < 16
	opts := []jet.Option{jx.NoEscape}
	if dev {
		opts = append(opts, jet.InDevelopmentMode())
	}
	inner := jet.NewInMemLoader()
	for k, v := range files {
		inner.Set(k, v)
	}
	ld := rec.NewLoader(inner)
	set := jet.NewSet(ld, opts...)
	var hist []string
	c.Begin(idx, map[string]interface{}{"sequence": "several references on one Set", "development_mode": dev})
	defer c.End()
	n := 4 + r.Intn(8)
	for i := 0; i < n; i++ {
		var want string
		var res jx.Res
		ld.Log.Reset()
		if r.Intn(3) == 0 {
			// GetTemplate of a relative name: resolves against the root
			nm := names[r.Intn(len(names))] + ".jet"
			hist = append(hist, "GetTemplate("+nm+")")
			want = "[F:" + c15canon("/", nm) + "]"
			res = jx.RunSet(set, nm, nil, nil)
		} else {
			rf := refs[r.Intn(len(refs))]
			hist = append(hist, fmt.Sprintf("Execute(%s: include %q)", rf.path, rf.name+".jet"))
			want = "<[F:" + c15canon(rf.dir, rf.name+".jet") + "]>"
			res = jx.RunSet(set, rf.path, nil, nil)
		}
		c.Count("sequence_lookups", 1)
		for _, call := range ld.Log.Snapshot() {
			if !c15clean(call.Path) {
				c.Journal(map[string]interface{}{"history": hist})
				c.Violation("c15:sequence:unclean-path-to-loader", "", fmt.Sprintf("Loader.%s(%q)", call.Op, call.Path))
				return
			}
		}
		if res.Failed() || res.Out != want {
			c.Journal(map[string]interface{}{"history": hist, "development_mode": dev})
			c.Violation("c15:sequence:wrong-template-used", "", fmt.Sprintf("step %d rendered %s, want %q", i, res, want))
			return
		}
	}
	c.Distinct(fmt.Sprintf("sequence|%v|%d", dev, n))
}

// c15canary: a directory-rooted loader can never be steered outside its directory.
func c15canary(c *fw.Ctx, idx int, r *rand.Rand) {
	esc := []string{"../canary", "/../canary", "a/../../canary", "../../../canary", "/a/../../canary", "./../canary", "..//canary", "a/b/../../../canary", "/..", "../outside/secret", "/a/../../outside/secret"}
	sp := esc[r.Intn(len(esc))]
	if r.Intn(3) == 0 {
		sp = c15decorate(r, sp)
	}
	entry := c15entries[r.Intn(len(c15entries))]
	refDir := c15dirs[r.Intn(4)]
	cs := c15case{Entry: entry, Exts: []string{"", ".jet", ".txt"}, RefDir: refDir, Spelling: sp, Canary: true}
	c.Begin(idx, cs)
	defer c.End()
	root, err := os.MkdirTemp(os.Getenv("VCHECK_TMP"), "c15-")
	if err != nil {
		c.Count("tempdir_failed", 1)
		return
	}
	defer os.RemoveAll(root)
	tpl := filepath.Join(root, "tpl")
	os.MkdirAll(filepath.Join(tpl, "a", "b", "c"), 0755)
	os.MkdirAll(filepath.Join(root, "outside"), 0755)
	for _, f := range []string{"canary", "canary.jet", "canary.txt", "outside/secret", "outside/secret.jet"} {
		os.WriteFile(filepath.Join(root, f), []byte(c15canaryToken), 0644)
	}
	refBase := refDir + "ref"
	os.WriteFile(filepath.Join(tpl, filepath.FromSlash(refBase+".jet")), []byte(c15refBody(entry, sp)), 0644)
	ld := rec.NewLoader(jet.NewOSFileSystemLoader(tpl))
	set := jet.NewSet(ld, jet.WithTemplateNameExtensions(cs.Exts), jx.NoEscape)
	vars := jet.VarMap{}
	vars.Set("name", sp)
	var res jx.Res
	if entry == "get" {
		res = jx.RunSet(set, sp, vars, nil)
	} else {
		t, err, pan := jx.Get(set, refBase)
		res = jx.Res{ParseErr: err, Panic: pan}
		if err == nil && pan == nil {
			res = jx.Exec(t, vars, sp)
		}
	}
	c.Count("canary_lookups", 1)
	for _, call := range ld.Log.Snapshot() {
		if !c15clean(call.Path) {
			c.Violation("c15:canary:unclean-path-to-loader:"+entry, "", fmt.Sprintf("Loader.%s(%q)", call.Op, call.Path))
			return
		}
	}
	if strings.Contains(res.Out, c15canaryToken) || strings.Contains(res.ErrStr(), c15canaryToken) {
		c.Violation("c15:canary:escaped-the-root:"+entry, "", fmt.Sprintf("spelling %q from %q read a file outside the loader's directory: %s", sp, refDir, res))
		return
	}
	c.Distinct("canary|" + entry + "|" + c15shape(sp))
}

func init() {
	fw.Register(&fw.Property{
		ID:        "C15",
		Technique: "recording Loader/Cache wrappers: every path argument observed; lookups compared with an independent canonicalisation of the spelling; canary file outside a directory-rooted loader",
		Rule: "each case is one reference (GetTemplate, extends, import, include static/computed from context/computed from a variable, exec static/computed, includeIfExists) from a referrer at directory depth 0-3 to a target spelt relatively or absolutely with ./ ../ // detours, trailing slashes and surplus '..', under 5 extension lists; " +
			"same-named targets exist in 7 directories so a wrong resolution renders a different file; oracle: every Loader.Exists/Open and Cache.Get/Put argument is absolute and path.Clean-stable, the Exists probes equal canon(spelling)+extensions in order up to the first existing file, output/Template.Name identify that file; " +
			"1/16 of the cases run on an OS-rooted Set with a canary file outside the root that must never be read; non-trivial = spelling differs from its canonical form; distinct by (entry point, referrer dir, spelling shape, extension list) Since wave 8: a quarter of the single-lookup cases use a development-mode Set; spellings whose last segment is white space or a dot segment followed by white space; extension lists without leading dots.",
		Assumptions: []string{"path.Clean defines 'lexically clean'", "backslash spellings are out of scope on this platform (filepath.ToSlash is the identity on Linux)"},
		NCases:      c15n,
		RunCase:     c15run,
		MinDistinct: 300,
	})
}
