package props

import (
	"fmt"

	"github.com/CloudyKit/jet/v6"
	"verifh/internal/fw"
	"verifh/internal/jx"
)

// Directed C08 cases the generator does not produce: recursion bounded by data, argument order
// permutations with defaults, and most-derived resolution through a definition site in the root layout.

var c08directedCases = []struct {
	name  string
	files map[string]string
	main  string
	want  string
	// parseSrc: the executed template is not loaded but handed to Set.Parse under the name main
	parseSrc string
}{
	{"recursive-block", map[string]string{"/t.jet": `{{block rec(n=0)}}[{{n}}{{if n > 0}}{{yield rec(n=n-1)}}{{end}}]{{end}}|{{yield rec(n=3)}}`}, "/t.jet", "[0]|[3[2[1[0]]]]", ""},
	{"recursive-over-data", map[string]string{"/t.jet": `{{block tree()}}({{.name}}{{range .kids}}{{yield tree() .}}{{end}}){{end}}`}, "/t.jet", "(root(a(a1)(a2))(b))", ""},
	{"argument-order-and-defaults", map[string]string{"/t.jet": `{{block b(x="dx", y="dy", z="dz")}}<{{x}},{{y}},{{z}}>{{end}}|{{yield b(z="Z", x="X")}}|{{yield b(y="Y")}}|{{yield b(y="Y", z="Z", x="X")}}|{{yield b()}}`}, "/t.jet", "<dx,dy,dz>|<X,dy,Z>|<dx,Y,dz>|<X,Y,Z>|<dx,dy,dz>", ""},
	{"definition-site-in-root-uses-most-derived", map[string]string{
		"/root.jet": `R[{{block a(p="rp")}}root-a:{{p}}{{end}}|{{block b()}}root-b{{end}}|{{yield a(p="yp")}}]`,
		"/mid.jet":  `{{extends "/root.jet"}}{{block a(p="mp")}}mid-a:{{p}}{{end}}ignored`,
		"/leaf.jet": `{{extends "/mid.jet"}}{{import "/lib.jet"}}{{block b()}}leaf-b{{yield c()}}{{end}}ignored`,
		"/lib.jet":  `{{block a(p="lp")}}lib-a:{{p}}{{end}}{{block c()}}lib-c{{end}}text-of-import-renders-nothing`,
	}, "/leaf.jet", "R[lib-a:lp|leaf-blib-c|lib-a:yp]", ""},
	{"later-import-wins-over-earlier-and-extends", map[string]string{
		"/root.jet": `{{yield t()}}|{{yield u()}}|{{yield v()}}`,
		"/page.jet": `{{extends "/root.jet"}}{{import "/l1.jet"}}{{import "/l2.jet"}}{{block v()}}page-v{{end}}`,
		"/l1.jet":   `{{block t()}}l1-t{{end}}{{block u()}}l1-u{{end}}{{block v()}}l1-v{{end}}`,
		"/l2.jet":   `{{block t()}}l2-t{{end}}`,
	}, "/page.jet", "l2-t|l1-u|page-v", ""},
	// a variant parsed under the name of the very template it extends (the loader keeps the original): still a chain of
	// two templates whose root is rendered with the variant's blocks
	{"parsed-variant-extends-its-namesake", map[string]string{"/layout.jet": `L[{{block b()}}layout-b{{end}}|{{block c()}}layout-c{{end}}]`}, "/layout.jet", "L[variant-b|layout-c]",
		`{{extends "/layout.jet"}}{{block b()}}variant-b{{end}}text of the variant outside blocks`},
	{"parsed-variant-extends-its-namesake-through-a-middle-template", map[string]string{"/layout.jet": `L[{{block b()}}layout-b{{end}}|{{block c()}}layout-c{{end}}]`, "/mid.jet": `{{extends "/layout.jet"}}{{block c()}}mid-c{{end}}`}, "/mid.jet", "L[variant-b|mid-c]",
		`{{extends "/mid.jet"}}{{block b()}}variant-b{{end}}outside`},
	{"content-in-callers-scope-and-default-content", map[string]string{"/t.jet": `{{block w()}}<{{x := "block-local"}}{{yield content}}>{{content}}default{{end}}|{{x := "caller"}}{{yield w() content}}{{x}}{{end}}|{{yield w() content}}{{yield w() content}}inner-{{x}}{{end}}{{end}}`}, "/t.jet", "<default>|<caller>|<<inner-caller>>", ""},
}

var c08nDirected = len(c08directedCases)

func c08directedCase(c *fw.Ctx, idx int) bool {
	d := c08directedCases[idx]
	c.Begin(idx, map[string]interface{}{"directed": d.name, "files": d.files})
	defer c.End()
	var data interface{}
	if d.name == "recursive-over-data" {
		leaf := func(n string) map[string]interface{} {
			return map[string]interface{}{"name": n, "kids": []interface{}{}}
		}
		data = map[string]interface{}{"name": "root", "kids": []interface{}{
			map[string]interface{}{"name": "a", "kids": []interface{}{leaf("a1"), leaf("a2")}}, leaf("b")}}
	}
	res := jx.Run(d.files, d.main, jet.VarMap{}, data, jx.NoEscape)
	if d.parseSrc != "" {
		set, _ := jx.NewSet(d.files, jx.NoEscape)
		t, err, pan := jx.Parse(set, d.main, d.parseSrc)
		res = jx.Res{ParseErr: err, Panic: pan}
		if err == nil && pan == nil {
			res = jx.Exec(t, jet.VarMap{}, data)
		}
	}
	if res.Failed() || res.Out != d.want {
		c.Violation("c08:directed:"+d.name, "", fmt.Sprintf("want %q, got %s", d.want, res))
	}
	c.Distinct("directed|" + d.name)
	return true
}

func init() {
	c08.nDirected = c08nDirected
	c08.directed = c08directedCase
}
