package props

import (
	"fmt"
	"reflect"
	"strings"

	"github.com/CloudyKit/jet/v6"
	"verifh/internal/fw"
	"verifh/internal/jx"
)

// Directed capture cases for C07: a loop variable (or '.') captured in an outer variable during
// iteration N must still have that value after later iterations and after the loop. The oracle is
// self-consistency (value printed at capture time == value printed after the loop), so multi-entry
// maps can be used although their iteration order is random.

type c07ranger struct {
	items []string
	i     int
	idx   bool
}

func (r *c07ranger) Range() (k, v reflect.Value, end bool) {
	if r.i >= len(r.items) {
		r.i = 0
		return reflect.Value{}, reflect.Value{}, true
	}
	if r.idx {
		k = reflect.ValueOf(r.i)
	}
	v = reflect.ValueOf(r.items[r.i])
	r.i++
	return
}
func (r *c07ranger) ProvidesIndex() bool { return r.idx }

type c07subject struct {
	name string
	mk   func() interface{}
	expr string
	idx  bool
}

var c07subjects = []c07subject{
	{"map[string]string", func() interface{} { return map[string]string{"ka": "va", "kb": "vb", "kc": "vc", "kd": "vd"} }, "x", true},
	{"map[string]int", func() interface{} { return map[string]int{"ka": 11, "kb": 22, "kc": 33} }, "x", true},
	{"map[int]string", func() interface{} { return map[int]string{1: "v1", 2: "v2", 3: "v3"} }, "x", true},
	{"map[string]interface{}", func() interface{} { return map[string]interface{}{"ka": "va", "kb": 2, "kc": "vc"} }, "x", true},
	{"[]string", func() interface{} { return []string{"s0", "s1", "s2"} }, "x", true},
	{"[]int", func() interface{} { return []int{10, 20, 30} }, "x", true},
	{"[3]string", func() interface{} { return [3]string{"a0", "a1", "a2"} }, "x", true},
	{"*[]string", func() interface{} { s := []string{"p0", "p1", "p2"}; return &s }, "x", true},
	{"chan string", func() interface{} {
		c := make(chan string, 3)
		c <- "c0"
		c <- "c1"
		c <- "c2"
		close(c)
		return c
	}, "x", false},
	{"ints", func() interface{} { return nil }, "ints(5, 9)", true},
	{"Ranger+index", func() interface{} { return &c07ranger{items: []string{"r0", "r1", "r2"}, idx: true} }, "x", true},
	{"Ranger", func() interface{} { return &c07ranger{items: []string{"n0", "n1", "n2"}} }, "x", false},
}

const c07nDirected = 12 * 3 * 2

func c07directedCase(c *fw.Ctx, idx int) bool {
	if idx >= c07nDirected {
		rebindCase(c, idx-c07nDirected, "C07")
		return true
	}
	sub := c07subjects[idx%len(c07subjects)]
	what := []string{"key", "value", "dot"}[idx/len(c07subjects)%3]
	iter := 1 + idx/len(c07subjects)/3%2
	var head, src string
	switch what {
	case "key":
		head, src = "range k, v := "+sub.expr, "k"
		if !sub.idx {
			head, src = "range k := "+sub.expr, "k" // index-less: the single variable is the value
		}
	case "value":
		head, src = "range k, v := "+sub.expr, "v"
		if !sub.idx {
			head, src = "range v := "+sub.expr, "v"
		}
	case "dot":
		head, src = "range "+sub.expr, "."
	}
	tpl := fmt.Sprintf(`{{n := 0}}{{cap := "unset"}}{{%s}}{{n = n + 1}}{{if n == %d}}{{cap = %s}}[at:{{cap}}]{{end}}{{end}}[after:{{cap}}][n:{{n}}]`, head, iter, src)
	c.Begin(idx, map[string]interface{}{"directed": "capture", "subject": sub.name, "captured": what, "iteration": iter, "template": tpl})
	defer c.End()
	vars := jet.VarMap{}
	if v := sub.mk(); v != nil {
		vars.Set("x", v)
	}
	res := jx.Run(map[string]string{"/t.jet": tpl}, "/t.jet", vars, "outer-dot", jx.NoEscape)
	c.Count("directed_capture_cases", 1)
	if res.Failed() {
		c.Violation("c07:capture:error:"+sub.name, "", res.String())
		return true
	}
	at := between(res.Out, "[at:", "]")
	after := between(res.Out, "[after:", "]")
	if at == "" || at == "unset" || at != after {
		c.Violation("c07:captured-value-changed:"+sub.name+":"+what, "", fmt.Sprintf("captured %q in iteration %d, but the variable reads %q after the loop (output %q)", at, iter, after, res.Out))
		return true
	}
	c.Distinct("capture|" + sub.name + "|" + what + "|" + fmt.Sprint(iter))
	return true
}

func between(s, a, b string) string {
	i := strings.Index(s, a)
	if i < 0 {
		return ""
	}
	s = s[i+len(a):]
	j := strings.Index(s, b)
	if j < 0 {
		return ""
	}
	return s[:j]
}

func init() {
	c07.nDirected = c07nDirected + nRebind
	c07.directed = c07directedCase
}
