package props

import (
	"fmt"
	"strings"
	"text/template"

	"github.com/CloudyKit/jet/v6"
	"verifh/internal/fw"
	"verifh/internal/hook"
	"verifh/internal/jx"
	"verifh/internal/prog"
)

// Shared runner for the properties decided by the program model (C05, C07, C08, C09, C13).

type progSpec struct {
	id      string
	cfg     func(idx int) prog.Cfg
	extra   map[string]interface{} // ExtraVars for every execution
	nontriv func(feats map[string]bool, p *prog.Program) bool
	key     func(feats []string, p *prog.Program) string
	// post runs additional, property-specific checks on an agreeing execution.
	post func(c *fw.Ctx, p *prog.Program, m prog.Result, o prog.Observed)
	// directed returns extra non-model cases for low indexes (nil when idx is a model case).
	directed  func(c *fw.Ctx, idx int) bool
	nDirected int
	// escaped: run this case under the default HTML escaper (model: escaper applied to every value, never to text)
	escaped func(idx int) bool
}

var progHTMLWriters = map[string]func(string) string{"raw": func(s string) string { return s }, "unsafe": func(s string) string { return s }, "safeHtml": template.HTMLEscapeString}

func progSources(p *prog.Program) map[string]string { return p.Sources(p.Newline) }

func runProgCase(c *fw.Ctx, idx int, sp *progSpec) {
	if idx < sp.nDirected {
		sp.directed(c, idx)
		return
	}
	r := c.Rand(idx, sp.id)
	cfg := sp.cfg(idx)
	p, feats := prog.Gen(r, cfg)
	desc := map[string]interface{}{"files": progSources(p), "main": p.Main, "vars": renderVars(p.Vars), "globals": renderVars(p.Globals), "data": p.Data.Render(), "has_data": p.HasData}
	c.Begin(idx, desc)
	defer c.End()
	escaped := sp.escaped != nil && sp.escaped(idx)
	m := prog.Eval(p)
	opts := []jet.Option{jx.NoEscape}
	if escaped {
		m = prog.EvalWith(p, template.HTMLEscapeString, progHTMLWriters)
		opts = nil
		c.Count("programs_under_the_default_escaper", 1)
	}
	if m.Unspecified != "" {
		c.Count("discarded_unspecified:"+m.Unspecified, 1)
		return
	}
	o := p.Run(prog.RunOpts{Opts: opts, ExtraVars: sp.extra})
	c.Count("programs", 1)
	fm := map[string]bool{}
	for _, f := range feats {
		fm[f] = true
		c.Count("feature:"+f, 1)
	}
	if m.Err != nil {
		c.Count("programs_ending_in_error", 1)
	}
	if class, detail := prog.Compare(m, o, false); class != "" {
		c.Violation(strings.ToLower(sp.id)+":"+class+":"+progShape(fm), "", map[string]interface{}{"mismatch": class, "detail": detail, "model_error": fmt.Sprint(m.Err), "real_error": fmt.Sprint(o.Err)})
		return
	}
	if hook.Available && len(o.StateEvents) > 0 {
		c.Count("state_probe_pairs", len(o.StateEvents)/2)
		if mm := o.StateMismatches(); len(mm) > 0 {
			c.Violation(strings.ToLower(sp.id)+":state-not-restored:"+progShape(fm), "", map[string]interface{}{"hook": "VerifProbe snapshots before/after a construct differ (scope depth, scope, context, content, writer)", "pairs": mm})
			return
		}
	}
	if !escaped && sharedSetEntries(c, r, p, sp.extra, strings.ToLower(sp.id)) {
		return
	}
	if sp.post != nil {
		sp.post(c, p, m, o)
	}
	if sp.nontriv(fm, p) {
		c.Distinct(sp.key(feats, p))
	}
	if idx%997 == 3 {
		c.Sample(map[string]interface{}{"files": progSources(p), "output": o.Out, "features": feats})
	}
}

// sharedSetEntries executes several files of the program as entry points, one after the other on ONE Set (so that every
// template is parsed once and shared by all later executions), and compares each execution with the model evaluated for
// that entry alone: what an execution renders does not depend on what was loaded or executed before on the Set.
func sharedSetEntries(c *fw.Ctx, r interface{ Intn(int) int }, p *prog.Program, extra map[string]interface{}, sig string) bool {
	if len(p.Files) < 2 {
		return false
	}
	set := p.NewSet(p.Newline, jx.NoEscape)
	var hist []string
	for step, n := 0, 2+r.Intn(4); step < n; step++ {
		q := *p
		q.Main = p.Files[r.Intn(len(p.Files))].Path
		if r.Intn(3) == 0 {
			q.Main = p.Main
		}
		m := prog.Eval(&q)
		if m.Unspecified != "" {
			c.Count("shared_set_discarded_unspecified", 1)
			continue
		}
		hist = append(hist, q.Main)
		o := q.Run(prog.RunOpts{Set: set, ExtraVars: extra})
		c.Eval(1)
		c.Count("shared_set_entry_executions", 1)
		if class, detail := prog.Compare(m, o, p.Newline); class != "" {
			c.Violation(sig+":shared-set:"+class, "", map[string]interface{}{"entries_executed_on_one_set": hist, "mismatch": class, "detail": detail, "model_error": fmt.Sprint(m.Err), "real_error": fmt.Sprint(o.Err)})
			return true
		}
	}
	return false
}

// progShape names the most specific constructs involved, to group violation signatures.
func progShape(f map[string]bool) string {
	var s []string
	for _, k := range []string{"try", "fail", "include", "include-loop", "yield-with-content", "yield-content-ctx", "yield", "range", "if", "extends", "import"} {
		if f[k] {
			s = append(s, k)
		}
	}
	if len(s) > 4 {
		s = s[:4]
	}
	return strings.Join(s, "+")
}

func renderVars(m map[string]prog.Value) map[string]string {
	out := map[string]string{}
	for k, v := range m {
		out[k] = fmt.Sprintf("%s (flavor %d)", v.Render(), v.Fl)
	}
	return out
}

func featKey(feats []string, _ *prog.Program) string { return strings.Join(feats, ",") }

// ---------- C05 ----------

var c05extra = map[string]interface{}{
	"f_half": 0.5, "f_zero": 0.0, "f32_quarter": float32(-0.25), "f_one": 1.0, "f_tiny": 1e-9,
	"i8_zero": int8(0), "i8_neg": int8(-1), "u16_three": uint16(3), "u_zero": uint(0), "i64_big": int64(1) << 40,
	"s_empty": "", "s_space": " ", "s_zero": "0", "s_false": "false", "b_false": false, "b_true": true,
	"p_nil": (*int)(nil), "p_set": new(int), "if_nil": interface{}(nil), "m_nil": map[string]int(nil), "m_empty": map[string]int{},
	"sl_empty": []int{}, "sl_nil": []int(nil),
	"ifc": []interface{}{false, 0, "", nil, 0.25, "x", true},
	// conditions held in interface types that carry methods: what counts is the value inside, not that the interface is non-nil
	"sts":  []fmt.Stringer{c05nInt(0), c05nInt(3), c05nStr(""), c05nStr("x"), c05nBool(false), c05nBool(true), nil, c05nFloat(0), c05nFloat(0.5)},
	"errz": c05holder{E: c05nErr(0), F: c05nErr(2)},
}

type c05nInt int
type c05nStr string
type c05nBool bool
type c05nFloat float64
type c05nErr int

func (c05nInt) String() string   { return "nInt" }
func (c05nStr) String() string   { return "nStr" }
func (c05nBool) String() string  { return "nBool" }
func (c05nFloat) String() string { return "nFloat" }
func (c05nErr) Error() string    { return "nErr" }

type c05holder struct{ E, F, N error }

func truthyOpaque(src string, truthy bool) prog.Opaque {
	return prog.Opaque{Src: src, Val: prog.Bool(truthy)}
}

var c05conds = []prog.Opaque{
	truthyOpaque("f_half", true), truthyOpaque("f_zero", false), truthyOpaque("f32_quarter", true), truthyOpaque("f_one", true), truthyOpaque("f_tiny", true),
	truthyOpaque("i8_zero", false), truthyOpaque("i8_neg", true), truthyOpaque("u16_three", true), truthyOpaque("u_zero", false), truthyOpaque("i64_big", true),
	truthyOpaque("s_empty", false), truthyOpaque("s_space", true), truthyOpaque("s_zero", true), truthyOpaque("s_false", true), truthyOpaque("b_false", false), truthyOpaque("b_true", true),
	truthyOpaque("p_nil", false), truthyOpaque("p_set", true), truthyOpaque("if_nil", false), truthyOpaque("m_nil", false), truthyOpaque("m_empty", true),
	truthyOpaque("sl_empty", true), truthyOpaque("sl_nil", false),
	truthyOpaque("0.5", true), truthyOpaque("0.0", false), truthyOpaque("0", false), truthyOpaque("-1", true), truthyOpaque(`""`, false), truthyOpaque(`"a"`, true), truthyOpaque("nil", false),
	truthyOpaque("ifc[0]", false), truthyOpaque("ifc[1]", false), truthyOpaque("ifc[2]", false), truthyOpaque("ifc[3]", false), truthyOpaque("ifc[4]", true), truthyOpaque("ifc[5]", true), truthyOpaque("ifc[6]", true),
	truthyOpaque("sts[0]", false), truthyOpaque("sts[1]", true), truthyOpaque("sts[2]", false), truthyOpaque("sts[3]", true), truthyOpaque("sts[4]", false), truthyOpaque("sts[5]", true),
	truthyOpaque("sts[6]", false), truthyOpaque("sts[7]", false), truthyOpaque("sts[8]", true), truthyOpaque("errz.E", false), truthyOpaque("errz.F", true), truthyOpaque("errz.N", false),
	truthyOpaque("f_half > 0.25", true), truthyOpaque("i8_neg == 0", false), truthyOpaque("not f_zero", true), truthyOpaque("f_zero || s_empty", false), truthyOpaque("f_tiny && s_zero", true),
}

var c05 = &progSpec{
	id: "C05",
	cfg: func(idx int) prog.Cfg {
		return prog.Cfg{Items: 3, MaxDepth: 4, Ifs: true, Ranges: true, Vars: true, CondKinds: true, CondOpaques: c05conds, RangeErrs: true, Fails: idx%5 == 0, FailAnywhere: idx%5 == 0}
	},
	extra: c05extra,
	nontriv: func(f map[string]bool, _ *prog.Program) bool {
		return (f["if"] && f["range"]) || f["cond-opaque"] || f["else-if"] || f["range-else"]
	},
	key: featKey,
}

// ---------- C07 ----------

var c07 = &progSpec{
	id: "C07",
	cfg: func(idx int) prog.Cfg {
		return prog.Cfg{Items: 3, MaxDepth: 3, Ifs: true, Ranges: true, Vars: true, Blocks: idx%2 == 0, Includes: idx%3 == 0, Ctx: true, CondKinds: true, MultiFile: idx%4 == 0, SharedNames: true, IssetSwallow: true, IncludeIfExists: idx%2 == 0,
			Fails: idx%7 == 0 || idx%3 == 0, FailAnywhere: idx%7 == 0, Try: idx%3 == 0, StateProbes: idx%2 == 1, PanicFuncs: true}
	},
	nontriv: func(f map[string]bool, _ *prog.Program) bool {
		return f["capture-loop-var"] || f["shadow-root"] || f["shadow-local"] || f["set"] || f["if-let"] || f["yield-ctx"] || f["include-ctx"] || f["yield-content-ctx"]
	},
	key: featKey,
}

// ---------- C08 ----------

func definedInSeveralFiles(p *prog.Program) bool {
	seen := map[string]string{}
	for _, f := range p.Files {
		for _, n := range f.Body {
			if b, ok := n.(*prog.BlockDef); ok {
				if g, dup := seen[b.Name]; dup && g != f.Path {
					return true
				}
				seen[b.Name] = f.Path
			}
		}
	}
	return false
}

// values rendered at value sites of C13 programs, a third of them through a SafeWriter: whatever route the bytes take,
// they belong to the try body they were rendered in
var c13values = []prog.Opaque{{Src: "wval1", Val: prog.Str("«w1<&>»")}, {Src: "wval2", Val: prog.Str("«w2»")}}

var c08 = &progSpec{
	id: "C08",
	cfg: func(idx int) prog.Cfg {
		return prog.Cfg{Items: 3, MaxDepth: 3, Ifs: true, Ranges: idx%2 == 0, Vars: true, Blocks: true, MultiFile: true, Ctx: true, SharedNames: true, Includes: idx%5 == 0, Try: idx%3 == 0, Fails: idx%3 == 0, FailAnywhere: idx%6 == 0, StateProbes: idx%3 == 0, PanicFuncs: true, IncludeIfExists: idx%5 == 0}
	},
	nontriv: func(f map[string]bool, p *prog.Program) bool {
		return definedInSeveralFiles(p) && (f["yield"] || f["block-def"])
	},
	key: featKey,
}

// ---------- C13 ----------

var c13 = &progSpec{
	id: "C13",
	cfg: func(idx int) prog.Cfg {
		return prog.Cfg{Items: 3, MaxDepth: 4, Ifs: true, Ranges: true, Vars: true, Blocks: idx%3 != 0, Includes: idx%4 == 0, MultiFile: idx%6 == 0, Try: true, Fails: true, Ctx: true, CondKinds: true, RangeErrs: true, SharedNames: idx%2 == 0, StateProbes: idx%2 == 1, IssetSwallow: true, IncludeIfExists: idx%2 == 0, PanicFuncs: true,
			Values: c13values, Writers: []string{"raw", "unsafe"}}
	},
	extra:   map[string]interface{}{"wval1": "«w1<&>»", "wval2": "«w2»"},
	escaped: func(idx int) bool { return idx%2 == 0 },
	nontriv: func(f map[string]bool, _ *prog.Program) bool {
		return f["try"] && f["fail"] && (f["range"] || f["yield"] || f["if-let"] || f["include"])
	},
	key: featKey,
}

func progNCases(quick, thorough int) func(string) int {
	return func(tier string) int {
		if tier == "thorough" {
			return thorough
		}
		return quick
	}
}

func registerProg(sp *progSpec, technique, rule string, quick, thorough, minDistinct int) {
	fw.Register(&fw.Property{
		ID:          sp.id,
		Technique:   technique,
		Rule:        rule,
		Assumptions: []string{"the reference evaluator (internal/prog) encodes the semantics stated by the property and docs/syntax.md; shapes where the statements are silent are not generated or are discarded and counted (DESIGN 2.4)", "escaping is disabled for these executions (C01 covers it)"},
		NCases:      progNCases(quick, thorough),
		RunCase:     func(c *fw.Ctx, idx int) { runProgCase(c, idx, sp) },
		MinDistinct: minDistinct,
	})
}

func init() {
	const ruleCommon = "each case is a generated template set (every action renders unique tokens) executed by the real engine and by the reference evaluator; oracle: identical output, error/no error, call log of probe functions and caller VarMap afterwards; multi-file sets are then run again as a sequence of 2-5 entry points (main, layouts, libraries, include targets) on ONE Set, each compared with the evaluator run for that entry alone; "
	registerProg(c05, "reference-evaluator output monitor over generated if/range programs (all rangeable kinds, all variable forms, condition values of every kind)",
		ruleCommon+"programs nest if/else-if/else (with and without 'x := e;') and range (zero-, one-, two-variable forms, := and =, else branches) to depth 4 over typed/interface/nil/empty slices, arrays, pointers to slices, single-entry and empty maps, closed channels, ints(a,b), index-providing and index-less custom Rangers; "+
			"conditions are bools, ints, strings, nil, collections, isset(), comparisons and 54 opaque conditions with known truthiness (floats incl. fractional and zero, narrow ints, uints, nil/non-nil pointers, interfaces holding false/0/\"\"/nil/0.25, fmt.Stringer/error values holding named zeros, logical forms); "+
			"non-trivial = if and range both present, or an opaque-kind condition, else-if chain or range-else; plus 120 directed histories executing the same range statements (one Set) over 17 subject kinds of changing kind, incl. Rangers of slice/chan/map kind and Rangers yielding nothing; distinct by feature set", 25000, 1500000, 300)
	registerProg(c07, "reference-evaluator output monitor over generated scoping programs; caller VarMap inspected after Execute",
		ruleCommon+"programs mix :=, =, multi-assignment and discard at every depth of if (with let), range (all forms), block, yield with parameters/content, include and (a third of them) try/catch with failing actions; the same name is planted in the VarMap, the globals and the built-ins and shadowed locally; loop variables of every ranger kind are captured into outer variables and read after the loop; "+
			"'.' is printed before, inside and after every construct that may rebind it; isset(exec/includeIfExists(failing template, ctx).x) statements swallow a failure half-way through a context switch; plus 72 directed capture cases (multi-entry maps etc.) checked by self-consistency and 60 rebinding histories (one Set; the name of a built-in rebound in the VarMap and the Set globals between executions, 12 call-site shapes: each must call what the name resolves to now); non-trivial = capture, shadowing, '=', if-let or an explicit context present; distinct by feature set", 25000, 1500000, 300)
	registerProg(c08, "reference-evaluator output monitor over generated template sets with extends chains and import lists",
		ruleCommon+"sets have extends chains of depth 0-3, 0-3 library templates imported by any level (libraries import/extend each other), 5 block names shared by all files (parameters with defaults, explicit contexts, content-using blocks with default content), yields with named arguments in random order and omissions, "+
			"yields nested in range/if/content, content bodies reading caller variables that the block shadows, empty content clauses; a third of the sets contain try/catch with failures (also inside yielded blocks) and the hook's before/after state probes; non-trivial = a block name is defined in >=2 files and is yielded or has a definition site; distinct by feature set", 20000, 800000, 300)
	registerProg(c13, "reference-evaluator output monitor over generated try/catch programs with failures planted below state-changing constructs",
		ruleCommon+"try bodies contain failing actions (unknown identifier, bad operand, assignment to undeclared variable, unresolved block, two-variable range over an index-less ranger) at depth <=4 below range (context rebound), if-let, yield with parameters/content, include and inner try, with/without catch and catch variable; "+
			"a third of the value sites go through a SafeWriter (raw/unsafe); after every try the program prints '.', variables, isset() of names declared inside, and yields content again; 10 directed cases with a catch body executing return (prefix-tolerant: if rendering goes on, the catch variable is gone and variables and '.' are as before); non-trivial = try + failure + a state-changing construct; distinct by feature set", 25000, 1500000, 300)
}
