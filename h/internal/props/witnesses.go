package props

import (
	"bytes"
	"fmt"
	"io"
	"net/http"
	"os"
	"reflect"
	"strings"

	"github.com/CloudyKit/jet/v6"
	"github.com/CloudyKit/jet/v6/loaders/httpfs"
	"github.com/CloudyKit/jet/v6/loaders/multi"
	"github.com/CloudyKit/jet/v6/utils"
	"verifh/internal/data"
	"verifh/internal/fw"
	"verifh/internal/jx"
)

// Witnesses of the defects repaired by "fix:" commits in /repo (known_findings.txt, "fixed:" lines).
// They run as directed cases of the property they belong to on every run: silent on the repaired
// tree, a VIOLATION if the behaviour ever returns.

type wres = jx.Res

func wone(src string, vars jet.VarMap, data interface{}) wres {
	return jx.Run(map[string]string{"/t.jet": src}, "/t.jet", vars, data, jx.NoEscape)
}

func wout(r wres, want string) string {
	if r.Failed() || r.Out != want {
		return fmt.Sprintf("want %q, got %s", want, r)
	}
	return ""
}

func werr(r wres, sub string) string {
	if r.Panic != nil || r.ParseErr != nil || r.Err == nil || !strings.Contains(r.Err.Error(), sub) {
		return fmt.Sprintf("want an error containing %q, got %s", sub, r)
	}
	return ""
}

func wfirst(msgs ...string) string {
	for _, m := range msgs {
		if m != "" {
			return m
		}
	}
	return ""
}

type wInner struct{ Name, Other string }
type wOuter struct {
	Name string
	wInner
}
type WInner struct{ Name, Other string }
type WOuterBefore struct {
	Name string
	WInner
}
type WOuterAfter struct {
	WInner
	Name string
}
type WPInner struct{ X string }
type WPOuter struct{ *WPInner }

type wRecLoader struct {
	jet.Loader
	paths []string
}

func (r *wRecLoader) Exists(p string) bool { r.paths = append(r.paths, p); return r.Loader.Exists(p) }

var witnesses = []fw.Witness{
	{Prop: "C02", Name: "catch-followed-by-non-term", Run: func() string {
		r := wone("{{try}}a{{catch |}}b{{end}}", nil, nil)
		if r.Panic != nil || !r.Failed() {
			return r.String()
		}
		return ""
	}},
	{Prop: "C02", Name: "right-delimiter-starting-like-the-trim-marker", Run: func() string {
		for src, want := range map[string]string{"a{{ 1 + 1 -}  b{{ 2 - -}   c": "a2  b2c", "{{x -}": "", "a{{ 1": "ERR", "{{ -}": "ERR"} {
			r := jx.Run(map[string]string{"/t.jet": src}, "/t.jet", jet.VarMap{}.Set("x", ""), nil, jx.NoEscape, jet.WithDelims("{{", " -}"))
			if r.Panic != nil || (want == "ERR") != (r.ParseErr != nil) || (want != "ERR" && (r.Err != nil || r.Out != want)) {
				return fmt.Sprintf("%q with delimiters {{ and ' -}': %s, want %q", src, r, want)
			}
		}
		return ""
	}},
	{Prop: "C02", Name: "percent-sign-in-template-name", Run: func() string {
		set, _ := jx.NewSet(map[string]string{"/dir%20x/b%d.jet": "x\n{{ if }}"})
		for _, get := range []bool{false, true} {
			var err error
			if get {
				_, err = set.GetTemplate("/dir%20x/b%d.jet")
			} else {
				_, err = set.Parse("/a%20b%s.jet", "x\n{{ if }}")
			}
			name := map[bool]string{false: "/a%20b%s.jet", true: "/dir%20x/b%d.jet"}[get]
			if err == nil || !strings.HasPrefix(err.Error(), "template: "+name+":2: ") || strings.Contains(err.Error(), "%!") {
				return fmt.Sprintf("error for template %q: %v", name, err)
			}
		}
		return ""
	}},
	{Prop: "C02", Name: "stray-control-actions-rejected", Run: func() string {
		for _, src := range []string{"{{catch e}}x{{end}}", "{{if x}}{{content}}{{end}}", "{{try}}{{else}}{{end}}", "{{range x}}{{catch}}{{end}}{{end}}"} {
			if r := wone(src, nil, nil); r.ParseErr == nil {
				return fmt.Sprintf("%q accepted: %s", src, r)
			}
		}
		return ""
	}},
	{Prop: "C03", Name: "right-trim-with-custom-delims", Run: func() string {
		r := jx.Run(map[string]string{"/t.jet": "a [[ 1 -]]  b|a  [[- 2 -]]  b"}, "/t.jet", nil, nil, jx.NoEscape, jet.WithDelims("[[", "]]"))
		return wout(r, "a 1b|a2b")
	}},
	{Prop: "C03", Name: "comment-after-last-action-custom-delims", Run: func() string {
		r := jx.Run(map[string]string{"/t.jet": "a [[ 1 ]] b {* c *} d"}, "/t.jet", nil, nil, jx.NoEscape, jet.WithDelims("[[", "]]"))
		return wout(r, "a 1 b  d")
	}},
	{Prop: "C03", Name: "leading-whitespace-without-header", Run: func() string { return wout(wone("  \n{{ 1 }} x", nil, nil), "  \n1 x") }},
	{Prop: "C04", Name: "operator-after-paren-or-bracket", Run: func() string {
		v := jet.VarMap{}
		v.Set("a", 5).Set("s", []int{7}).Set("f", func(i int) int { return i })
		return wout(wone("{{ (a)-1 }}|{{ f(a)-1 }}|{{ s[0]-1 }}|{{ (a)+1 }}", v, nil), "4|4|6|6")
	}},
	{Prop: "C05", Name: "interface-held-falsy-values", Run: func() string {
		v := jet.VarMap{}
		v.Set("sl", []interface{}{false, 0, "", nil, 1, "x"}).Set("f", func() interface{} { return false })
		return wout(wone("{{range sl}}{{if .}}T{{else}}F{{end}}{{end}}|{{if f()}}T{{else}}F{{end}}", v, nil), "FFFFTT|F")
	}},
	{Prop: "C06", Name: "slice-bounds", Run: func() string {
		v := jet.VarMap{}
		v.Set("s", []int{1, 2, 3}).Set("a", 5)
		for _, e := range []string{"s[1:9]", "s[:5]", "s[2:1]", "s[-1:]", "a[1:2]"} {
			if m := werr(wone("{{ "+e+" }}", v, nil), ""); m != "" {
				return e + ": " + m
			}
		}
		return ""
	}},
	{Prop: "C06", Name: "map-int-key", Run: func() string {
		v := jet.VarMap{}
		v.Set("m", map[int]string{1: "one"})
		return wout(wone("{{ m[1] }}", v, nil), "one")
	}},
	{Prop: "C06", Name: "shadowed-promoted-field", Run: func() string {
		v := jet.VarMap{}
		v.Set("o", WOuterBefore{Name: "outer", WInner: WInner{"inner", "other"}}).Set("o2", WOuterAfter{Name: "outer", WInner: WInner{"inner", "other"}})
		return wout(wone("{{ o.Name }}|{{o.Other}}|{{ o2.Name }}|{{o2.Other}}", v, nil), "outer|other|outer|other")
	}},
	{Prop: "C06", Name: "nil-embedded-pointer", Run: func() string {
		v := jet.VarMap{}
		v.Set("o", WPOuter{})
		m := werr(wone("{{ o.X }}", v, nil), "")
		v.Set("o", WPOuter{&WPInner{"x"}})
		return wfirst(m, wout(wone("{{ o.X }}", v, nil), "x"))
	}},
	{Prop: "C07", Name: "ints-values-alias-counters", Run: func() string {
		return wout(wone("{{last:=0}}{{first:=0}}{{range i,v := ints(0,3)}}{{if i==0}}{{first=v}}{{end}}{{last = v}}{{end}}{{first}}{{last}}", nil, nil), "02")
	}},
	{Prop: "C09", Name: "exec-and-includeIfExists-multi-level-extends", Run: func() string {
		files := map[string]string{"/a.jet": "A[{{block x()}}ax{{end}}]{{return 1}}", "/b.jet": `{{extends "/a.jet"}}B`, "/c.jet": `{{extends "/b.jet"}}{{block x()}}cx{{end}}C`,
			"/t.jet": `{{includeIfExists("/c.jet")}}|{{exec("/c.jet")}}|{{include "/c.jet"}}`}
		return wout(jx.Run(files, "/t.jet", nil, nil, jx.NoEscape), "A[cx]|1|A[cx]")
	}},
	{Prop: "C09", Name: "return-survives-later-constructs", Run: func() string {
		files := map[string]string{"/r.jet": "{{return 1}}{{if true}}x{{end}}", "/r1.jet": `{{block b()}}{{return "fromblock"}}{{end}}`,
			"/r2.jet": `{{block b()}}x{{yield content}}{{end}}{{yield b() content}}{{return "fromcontent"}}{{end}}`, "/t.jet": `{{exec("/r.jet")}}|{{exec("/r1.jet")}}|{{exec("/r2.jet")}}`}
		return wout(jx.Run(files, "/t.jet", nil, nil, jx.NoEscape), "1|fromblock|fromcontent")
	}},
	{Prop: "C10", Name: "content-of-failed-execution", Run: func() string {
		s, _ := jx.NewSet(map[string]string{"/f.jet": "{{block b(fail=false)}}[{{yield content}}{{if fail}}{{nope}}{{end}}]{{end}}{{yield b(fail=true) content}}LEAK{{end}}", "/p.jet": "<{{yield content}}>"})
		f, _ := s.GetTemplate("/f.jet")
		p, _ := s.GetTemplate("/p.jet")
		for i := 0; i < 5; i++ {
			f.Execute(&bytes.Buffer{}, nil, nil)
			var b bytes.Buffer
			if err := p.Execute(&b, nil, nil); err != nil || b.String() != "<>" {
				return fmt.Sprintf("after a failed execution <{{yield content}}> rendered %q, %v", b.String(), err)
			}
		}
		return ""
	}},
	{Prop: "C12", Name: "yield-argument-without-value", Run: func() string {
		v := jet.VarMap{}
		v.Set("q", 1)
		return werr(wone("{{block b()}}x{{end}}\n{{yield b(q)}}", v, nil), `"/t.jet":2`)
	}},
	{Prop: "C12", Name: "line-of-literal-and-command-nodes", Run: func() string {
		v := jet.VarMap{}
		v.Set("a", 1).Set("s", []int{1})
		return wfirst(werr(wone("\n\n{{ \"a\" * 2 }}", v, nil), `"/t.jet":3`), werr(wone("\n\n{{ a: 1 }}", v, nil), `"/t.jet":3`), werr(wone("\n\n{{ s[\"x\":1] }}", v, nil), `"/t.jet":3`))
	}},
	{Prop: "C12", Name: "line-of-yield-with-content", Run: func() string {
		return wfirst(
			werr(wone("\n{{yield nosuch() content}}\nx\n{{end}}", nil, nil), `"/t.jet":2`),
			werr(wone("\n\n{{yield nosuch() content}}\na\n\nb\n{{end}}\n", nil, nil), `"/t.jet":3`),
			werr(wone("{{block b(x=1)}}{{x}}{{end}}\n{{if true}}\n{{yield nosuch() content}}\na\nb\n{{end}}\n{{end}}", nil, nil), `"/t.jet":3`),
			werr(wone("{{block b(x=1)}}{{x}}{{end}}\n{{range i := ints(0,1)}}\n\n{{yield b(x=nosuch) content}}\na\n{{end}}\n\n{{end}}", nil, nil), `"/t.jet":4`))
	}},
	{Prop: "C12", Name: "call-of-non-function", Run: func() string {
		v := jet.VarMap{}
		v.Set("a", 1)
		return werr(wone("\n{{ a() }}", v, nil), `"/t.jet":2`)
	}},
	{Prop: "C12", Name: "unary-minus-on-string", Run: func() string {
		v := jet.VarMap{}
		v.Set("s", "x")
		return werr(wone("\n{{ -s }}", v, nil), `"/t.jet":2`)
	}},
	{Prop: "C12", Name: "error-inside-yielded-content-unwinds", Run: func() string {
		src := "{{block cb()}}{{x := 1}}{{if true}}{{y := 2}}{{yield content}}{{end}}{{content}}{{end}}|{{yield cb() content}}\n{{ nosuch }}{{end}}"
		return werr(wone(src, nil, nil), `"/t.jet":2`)
	}},
	{Prop: "C12", Name: "right-operand-position", Run: func() string {
		v := jet.VarMap{}
		v.Set("i", 7).Set("s", "str")
		for _, e := range []string{"1 < s", "2 * s", "i - s", "i + nil", "i % nil", "1.5 / s"} {
			if m := werr(wone("\n{{ "+e+" }}", v, nil), `"/t.jet":2`); m != "" {
				return e + ": " + m
			}
		}
		return ""
	}},
	{Prop: "C12", Name: "unhashable-map-key", Run: func() string {
		v := jet.VarMap{}
		v.Set("m", map[interface{}]string{"a": "x"}).Set("k", []int{1})
		return werr(wone("\n{{ m[k] }}", v, nil), `"/t.jet":2`)
	}},
	{Prop: "C13", Name: "failed-try-restores-context-scopes-content", Run: func() string {
		return wfirst(
			wout(wone("{{try}}{{range .}}{{nope}}{{end}}{{end}}{{.}}", nil, []string{"e"}), "[e]"),
			wout(wone("{{x:=1}}{{try}}{{if y:=2;true}}{{nope}}{{end}}{{end}}{{isset(y)}}{{x}}", nil, nil), "false1"),
			wout(wone("{{block c(fail=false)}}({{yield content}}{{if fail}}{{nope}}{{end}}){{end}}|{{block b()}}[{{try}}{{yield c(fail=true) content}}IN{{end}}{{end}}{{yield content}}]{{end}}|{{yield b() content}}OUT{{end}}", nil, nil), "()|[]|[OUT]"))
	}},
	{Prop: "C14", Name: "inconvertible-arguments-and-map-odd", Run: func() string {
		for _, e := range []string{`map("a")`, `repeat(2,"ab")`, `upper(raw)`} {
			if m := werr(wone("{{ "+e+" }}", nil, nil), ""); m != "" {
				return e + ": " + m
			}
		}
		return ""
	}},
	{Prop: "C14", Name: "slot-without-pipe", Run: func() string {
		v := jet.VarMap{}
		v.Set("f", func(a, b, c string) string { return a + b + c })
		v.SetFunc("g", func(a jet.Arguments) (r reflect.Value) { a.Get(1); return })
		return wfirst(werr(wone(`{{ f("x", _, "y") }}`, v, nil), ""), werr(wone(`{{ g("x", _, "y") }}`, v, nil), ""))
	}},
	{Prop: "C14", Name: "len-indirects-through-layers", Run: func() string {
		s := []int{1, 2}
		p := &s
		v := jet.VarMap{}
		v.Set("pp", &p)
		return wout(wone("{{ len(pp) }}", v, nil), "2")
	}},
	{Prop: "C14", Name: "piped-into-variadic-only", Run: func() string {
		v := jet.VarMap{}
		v.Set("join", func(parts ...string) string { return strings.Join(parts, "+") })
		return wout(wone(`{{ "a" | join }}|{{ "a" | join: "b", "c" }}`, v, nil), "a|a+b+c")
	}},
	{Prop: "C15", Name: "absolute-names-cleaned", Run: func() string {
		l := &wRecLoader{Loader: jet.NewInMemLoader()}
		s := jet.NewSet(l)
		s.GetTemplate("/a/../../etc/passwd")
		s.GetTemplate("/a//b/./c/")
		for _, p := range l.paths {
			if !strings.HasPrefix(p, "/etc/passwd") && !strings.HasPrefix(p, "/a/b/c") {
				return fmt.Sprintf("loader asked for %q", p)
			}
		}
		return ""
	}},
	{Prop: "C16", Name: "cache-hit-without-empty-extension", Run: func() string {
		inner := jet.NewInMemLoader()
		inner.Set("/p.jet", "v1")
		l := &wRecLoader{Loader: inner}
		s := jet.NewSet(l, jet.WithTemplateNameExtensions([]string{".jet"}))
		t1, err := s.GetTemplate("/p")
		if err != nil {
			return err.Error()
		}
		n := len(l.paths)
		t2, _ := s.GetTemplate("/p")
		if t1 != t2 || len(l.paths) != n {
			return fmt.Sprintf("second lookup: same template %v, loader calls %d -> %d", t1 == t2, n, len(l.paths))
		}
		return ""
	}},
	{Prop: "C17", Name: "piped-nil-is-not-set", Run: func() string {
		v := jet.VarMap{}
		v.Set("m", map[string]string{"a": "b"})
		return wout(wone("{{ m.absent | isset }}|{{ isset(m.absent) }}|{{ m.a | isset }}", v, nil), "false|false|true")
	}},
	{Prop: "C18", Name: "YieldBlock-with-context-renders-once", Run: func() string {
		v := jet.VarMap{}
		v.SetFunc("yb", func(a jet.Arguments) reflect.Value { a.Runtime().YieldBlock("b", "ctx"); return reflect.Value{} })
		return wout(wone("{{block b()}}[{{.}}]{{end}}|{{yb()}}|{{.}}", v, "top"), "[top]|[ctx]|top")
	}},
	{Prop: "C19", Name: "multi-and-httpfs-directories", Run: func() string {
		dir, err := os.MkdirTemp(os.Getenv("VCHECK_TMP"), "wit-")
		if err != nil {
			return ""
		}
		defer os.RemoveAll(dir)
		os.Mkdir(dir+"/x", 0755)
		mem := jet.NewInMemLoader()
		mem.Set("/x", "MEM")
		m := multi.NewLoader(jet.NewOSFileSystemLoader(dir), mem)
		f, err := m.Open("/x")
		if err != nil {
			return err.Error()
		}
		b, _ := io.ReadAll(f)
		if string(b) != "MEM" {
			return fmt.Sprintf("multi.Open(/x) = %q", b)
		}
		h, _ := httpfs.NewLoader(http.Dir(dir))
		if h.Exists("/x") {
			return "httpfs Exists(directory) = true"
		}
		return ""
	}},
	{Prop: "C20", Name: "walk-include-try-return-slots", Run: func() string {
		s := jet.NewSet(jet.NewInMemLoader())
		for _, src := range []string{`{{include "x"}}`, `{{include "x" .}}`, `{{try}}a{{catch e}}{{e}}{{end}}`, `{{return 1}}`, `{{ 1 | f(_, 2) }}`, `{{ s[1:] }}{{ s[:1] }}{{s[:]}}`, `{{ -x }}`, `{{block b()}}{{yield content}}{{end}}`} {
			tt, err := s.Parse("/t.jet", src)
			if err != nil {
				return err.Error()
			}
			msg := ""
			func() {
				defer func() {
					if r := recover(); r != nil {
						msg = fmt.Sprintf("%s: %v", src, r)
					}
				}()
				n := 0
				utils.Walk(tt, utils.VisitorFunc(func(vc utils.VisitorContext, node jet.Node) {
					n++
					if n > 1000 {
						panic("runaway")
					}
					vc.Visit(node)
				}))
			}()
			if msg != "" {
				return msg
			}
		}
		return ""
	}},
	{Prop: "C12", Name: "nil-map-key-and-call-of-nil-value", Run: func() string {
		v := jet.VarMap{}
		v.Set("m", map[string]int{"a": 1})
		for _, src := range []string{"\n{{ m[nil] }}", "\n{{ v, ok := m[nil] }}", "\n{{ m.absent(1) }}", "\n{{ 1 + m.absent(1) }}"} {
			if msg := werr(wone(src, v, nil), `"/t.jet":2`); msg != "" {
				return src + ": " + msg
			}
		}
		return ""
	}},
	{Prop: "C17", Name: "range-context-held-in-interface-as-key", Run: func() string {
		v := jet.VarMap{}
		v.Set("keys", []interface{}{"a", "zz"}).Set("m", map[string]int{"a": 1, "b": 2}).Set("idx", []interface{}{1, 0}).Set("list", []string{"x", "y"})
		v.Set("byname", map[string]interface{}{"k": "b"})
		return wout(wone(`{{range keys}}[{{isset(m[.])}}{{ v, ok := m[.] }}{{ok}}]{{end}}|{{range idx}}{{isset(list[.])}}{{list[.]}}{{end}}|{{range byname}}{{isset(m[.])}}{{m[.]}}{{end}}`, v, nil), "[truetrue][falsefalse]|trueytruex|true2")
	}},
	{Prop: "C06", Name: "range-context-and-call-result-held-in-interface-as-index", Run: func() string {
		v := jet.VarMap{}
		v.Set("keys", []interface{}{"a"}).Set("m", map[string]int{"a": 1}).Set("idx", []interface{}{1}).Set("list", []string{"x", "y", "z"})
		v.Set("pick", func() interface{} { return "a" }).Set("picki", func() interface{} { return 1 })
		return wout(wone(`{{range keys}}{{m[.]}}{{end}}|{{range idx}}{{list[.]}}{{list[.:]}}{{list[:.]}}{{end}}|{{m[pick()]}}|{{list[picki()]}}{{list[picki():]}}`, v, nil), "1|y[y z][x]|1|y[y z]")
	}},
	{Prop: "C14", Name: "interface-held-values-as-arguments-and-operands", Run: func() string {
		v := jet.VarMap{}
		v.Set("keys", []interface{}{"ab"}).Set("nums", []interface{}{2})
		v.Set("pick", func() interface{} { return "cd" }).Set("picki", func() interface{} { return 3 })
		v.Set("twice", func(s string) string { return s + s }).Set("dbl", func(i int) int { return 2 * i })
		return wout(wone(`{{range keys}}{{upper(.)}}{{twice(.)}}{{. | twice}}{{. + "x"}}{{end}}|{{range nums}}{{dbl(.)}}{{. + 1}}{{. * 2}}{{end}}|{{upper(pick())}}{{pick() | twice}}{{pick() + "x"}}|{{dbl(picki())}}{{picki() + 1}}`, v, nil), "ABabababababx|434|CDcdcdcdx|64")
	}},
	{Prop: "C06", Name: "call-on-index-or-call-expression-inside-an-expression", Run: func() string {
		v := jet.VarMap{}
		v.Set("m", data.Meth{V: "x"}).Set("mk", func() func() string { return func() string { return "inner" } })
		return wout(wone(`{{ m["Val"]() }}|{{ "" + m["Val"]() }}|{{ m["Val"]()[0:3] }}|{{ m.Val()[0:3] }}|{{ "" + mk()() }}|{{ m["Arg"](2) == m.Arg(2) }}`, v, nil), "val:x|val:x|val|val|inner|true")
	}},
	{Prop: "C06", Name: "directed:same-named-struct-types-with-other-layouts", Run: func() string {
		// not a repaired defect: what was learnt about one struct type is not applied to another type that prints the same name
		for i := 0; i < 2; i++ {
			if m := wout(wone(`{{ .Label }}#{{ .N }}|{{ .["Label"] }}`, nil, c11rowA()), "report#3|report"); m != "" {
				return "first type: " + m
			}
			if m := wout(wone(`{{ .Label }}#{{ .N }}|{{ .["Label"] }}|{{ .Extra }}`, nil, c11rowB()), "other#99|other|true"); m != "" {
				return "second type of the same name: " + m
			}
		}
		return ""
	}},
	{Prop: "C12", Name: "range-assign-form-with-underscore", Run: func() string {
		v := jet.VarMap{}
		v.Set("xs", []string{"a", "b"})
		if m := wout(jx.Run(map[string]string{"/t.jet": `{{k := 9}}{{range k, _ = xs}}[{{k}}|{{.}}]{{end}}|{{k}}`}, "/t.jet", v, "ctx", jx.NoEscape), "[0|ctx][1|ctx]|1"); m != "" {
			return m
		}
		return wout(jx.Run(map[string]string{"/t.jet": `{{k := 9}}{{range _, k = xs}}[{{k}}|{{.}}]{{end}}|{{k}}`}, "/t.jet", v, "ctx", jx.NoEscape), "[a|ctx][b|ctx]|b")
	}},
	{Prop: "C06", Name: "promoted-through-pointer-vs-deeper-value", Run: func() string {
		pv := data.PtrVsVal{PA: &data.PA{PX: "shallow-through-pointer"}, VB: data.VB{VC: data.VC{PX: "deeper-by-value", VY: "y"}}}
		return wout(wone(`{{ .PX }}|{{ .["PX"] }}|{{ .VY }}|{{ .VB.PX }}`, nil, pv), "shallow-through-pointer|shallow-through-pointer|y|deeper-by-value")
	}},
	{Prop: "C05", Name: "ranger-behind-interface", Run: func() string {
		v := jet.VarMap{}
		v.Set("xs", []interface{}{&c05structR{items: []string{"a"}}, c05sliceR{1, 5}, c05sliceR{0, 0}})
		if m := wout(wone(`{{range xs}}{{range v := .}}<{{v}}>{{else}}E{{end}};{{end}}`, v, nil), "<a>;<5>;E;"); m != "" {
			return m
		}
		// ... and behind an interface type with methods of its own (a struct field, slice elements, a map value)
		v.Set("h", struct{ R c05tagged }{&c05structR{items: []string{"f"}}})
		v.Set("ts", []c05tagged{&c05structR{items: []string{"b"}, idx: true}, c05sliceR{2, 7}})
		v.Set("tm", map[string]c05tagged{"k": c05sliceR{1, 3}})
		return wout(wone(`{{range v := h.R}}<{{v}}>{{end}}|{{range ts}}{{range i, v := .}}<{{i}}:{{v}}>{{end}};{{end}}|{{range v := tm.k}}<{{v}}>{{end}}|{{range _, e := ts}}{{e.Tag()}}{{end}}`, v, nil), "<f>|<10:b>;<7:2><8:1>;|<3>|structslice")
	}},
}

type c05tagged interface{ Tag() string }

func (r *c05structR) Tag() string { return "struct" }
func (c c05sliceR) Tag() string   { return "slice" }

func init() { fw.RegisterWitnesses(witnesses) }
