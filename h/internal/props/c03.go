package props

import (
	"fmt"
	"io"
	"math/rand"
	"strings"
	"testing/iotest"

	"github.com/CloudyKit/jet/v6"
	"verifh/internal/fw"
	"verifh/internal/jx"
)

// C03: literal text verbatim; trim markers and comments remove exactly what they say.

type delimCfg struct {
	Name          string
	L, R, CL, CR  string
	customAct     bool
	customComment bool
	// half: only one marker of a pair is configured (the other argument of the option is ""): the unset one stays
	// at its default, which is what L/R/CL/CR spell out
	halfAct, halfComment [2]string
}

var delimCfgs = []delimCfg{
	{Name: "default", L: "{{", R: "}}", CL: "{*", CR: "*}"},
	{Name: "sq", L: "[[", R: "]]", CL: "{*", CR: "*}", customAct: true},
	{Name: "pct", L: "<%", R: "%>", CL: "<#", CR: "#>", customAct: true, customComment: true},
	{Name: "guillemet", L: "«", R: "»", CL: "{*", CR: "*}", customAct: true},
	{Name: "ccomment", L: "{{", R: "}}", CL: "/*", CR: "*/", customComment: true},
	{Name: "sqstar", L: "[[", R: "]]", CL: "[*", CR: "*]", customAct: true, customComment: true},
	{Name: "jinja", L: "{%", R: "%}", CL: "{#", CR: "#}", customAct: true, customComment: true},
	{Name: "onebyte", L: "<", R: ">", CL: "{*", CR: "*}", customAct: true},
	{Name: "same", L: "@@", R: "@@", CL: "{*", CR: "*}", customAct: true},
	{Name: "three", L: "<<<", R: ">>>", CL: "<!--", CR: "-->", customAct: true, customComment: true},
	{Name: "mbcomment", L: "{{", R: "}}", CL: "‹", CR: "›", customComment: true},
	{Name: "dollar", L: "${", R: "}", CL: "$*", CR: "*$", customAct: true, customComment: true},
	{Name: "symcomment", L: "{{", R: "}}", CL: "##", CR: "##", customComment: true},
	{Name: "tilde", L: "[[", R: "]]", CL: "~", CR: "~", customAct: true, customComment: true},
	{Name: "leftcommentonly", L: "{{", R: "}}", CL: "<#", CR: "*}", halfComment: [2]string{"<#", ""}},
	{Name: "rightcommentonly", L: "{{", R: "}}", CL: "{*", CR: "#}", halfComment: [2]string{"", "#}"}},
	{Name: "leftactonly", L: "<%", R: "}}", CL: "{*", CR: "*}", halfAct: [2]string{"<%", ""}},
	{Name: "rightactonly", L: "{{", R: "%>", CL: "[*", CR: "*]", halfAct: [2]string{"", "%>"}, customComment: true},
}

func (d delimCfg) opts() []jet.Option {
	var o []jet.Option
	if d.customAct {
		o = append(o, jet.WithDelims(d.L, d.R))
	}
	if d.customComment {
		o = append(o, jet.WithCommentDelims(d.CL, d.CR))
	}
	if d.halfAct != [2]string{} {
		o = append(o, jet.WithDelims(d.halfAct[0], d.halfAct[1]))
	}
	if d.halfComment != [2]string{} {
		o = append(o, jet.WithCommentDelims(d.halfComment[0], d.halfComment[1]))
	}
	return o
}

// c03oddLoader: an in-memory loader whose readers use the freedoms the io.Reader contract gives them.
type c03oddLoader struct {
	jet.Loader
	mode int
}

func (l c03oddLoader) Open(p string) (io.ReadCloser, error) {
	rc, err := l.Loader.Open(p)
	if err != nil {
		return nil, err
	}
	var r io.Reader
	switch l.mode {
	case 0:
		r = iotest.DataErrReader(rc)
	case 1:
		r = iotest.OneByteReader(rc)
	default:
		r = iotest.HalfReader(rc)
	}
	return struct {
		io.Reader
		io.Closer
	}{r, rc}, nil
}

type segKind int

const (
	segText segKind = iota
	segComment
	segAct
)

type actEffect int

const (
	effMark actEffect = iota // renders its marker
	effNone                  // renders nothing (assignment)
	effIfT
	effIfF
	effRange // range ints(0,N)
	effElse
	effEnd
	effImport
	effNeg    // renders a negative number: the body starts with '-' but "{{-7" is no trim marker (that needs "{{- ")
	effTry    // try without catch around a body that cannot fail: renders the body
	effBlockW // {{block w()}} around a lone {{yield content}}: the definition site renders nothing (no default content)
	effYieldC // {{yield content}} inside that definition
	effYieldW // {{yield w() content}} ... {{end}}: the content (text included, whitespace-only text too) is rendered in place
)

type seg struct {
	Pad    int // inner whitespace variant of an action (0: one blank; others: two blanks, newline+blank, tab+blank before the closer / after the opener)
	Kind   segKind
	Text   string // text or comment body
	Eff    actEffect
	LT, RT bool
	Body   string // action body without trim markers
	Mark   string
	N      int
}

func (s seg) src(d delimCfg, tight bool) string {
	switch s.Kind {
	case segText:
		return s.Text
	case segComment:
		return d.CL + s.Text + d.CR
	}
	b := s.Body
	pre, post := " ", " "
	if tight || s.Eff == effNeg {
		pre, post = "", ""
	}
	if s.LT {
		pre = "- "
	}
	if s.RT {
		post = " -"
	}
	// more whitespace inside the action changes nothing (the marker is the last blank + '-' before the closer)
	switch s.Pad {
	case 1:
		post = " " + post
	case 2:
		post = "\n" + post
	case 3:
		post = "\t" + post
		pre = pre + " "
	case 4:
		pre = pre + "\n"
	}
	if s.Pad != 0 && post == "" {
		post = " "
	}
	return d.L + pre + b + post + d.R
}

func (s seg) kindCode() string {
	switch s.Kind {
	case segText:
		c := "T"
		if strings.TrimRight(s.Text, " \t\r\n") != s.Text {
			c += "r"
		}
		if strings.TrimLeft(s.Text, " \t\r\n") != s.Text {
			c += "l"
		}
		if strings.Trim(s.Text, " \t\r\n") == "" {
			c = "W"
		}
		return c
	case segComment:
		return "C"
	}
	c := fmt.Sprintf("A%d", s.Eff)
	if s.LT {
		c += "<"
	}
	if s.RT {
		c += ">"
	}
	return c
}

const c03ws = " \t\r\n"

var c03core = []string{"\ufeff", "a", "b", "x", "0", "{", "}", "*", "-", "[", "]", "<", ">", "%", "#", "\"", "'", "&", "é", "«", "»", "日", "\f", "\v", " ", "\u0085", " ", "$", "@", "/", "!", "(", ")", "‹", "›", ".", "|", "{ {", "- ", " -", "--"}

func c03genWS(r *rand.Rand, max int) string {
	n := 1 + r.Intn(max)
	var b strings.Builder
	for i := 0; i < n; i++ {
		b.WriteByte(c03ws[r.Intn(4)])
	}
	return b.String()
}

func c03genCore(r *rand.Rand) string {
	n := 1 + r.Intn(5)
	var b strings.Builder
	for i := 0; i < n; i++ {
		b.WriteString(c03core[r.Intn(len(c03core))])
		if r.Intn(4) == 0 {
			b.WriteString(c03genWS(r, 2))
			b.WriteString(c03core[r.Intn(len(c03core))])
		}
	}
	s := b.String()
	// a core must not begin or end with trimmable whitespace (the edges are generated separately)
	s = strings.Trim(s, c03ws)
	if s == "" {
		s = "q"
	}
	return s
}

// shape: 0 = ws both sides, 1 = no edge ws, 2 = whitespace only, 3 = leading only, 4 = trailing only
func c03genText(r *rand.Rand, shape int) string {
	switch shape {
	case 0:
		return c03genWS(r, 3) + c03genCore(r) + c03genWS(r, 3)
	case 1:
		return c03genCore(r)
	case 2:
		return c03genWS(r, 4)
	case 3:
		return c03genWS(r, 3) + c03genCore(r)
	}
	return c03genCore(r) + c03genWS(r, 3)
}

func c03genComment(r *rand.Rand, d delimCfg) string {
	pool := []string{" c ", "", "x", " {{ 1 }} ", "\n multi\n line ", " - ", "é日", " * ", "{", "}}", " -", "- note ", "- ", "-", "- x -", "-\t", " note -"}
	s := pool[r.Intn(len(pool))]
	if strings.Contains(s, d.CR) || strings.Contains(s+d.CR[:len(d.CR)-1], d.CR) && len(d.CR) > 1 && strings.Index(s+d.CR, d.CR) < len(s) {
		return " c "
	}
	if strings.Index(s+d.CR, d.CR) != len(s) {
		return " c "
	}
	return s
}

// scan is an independent left-to-right scanner: the leftmost opener (action before comment on a tie) wins.
func c03scan(src string, d delimCfg) (out []seg, ok bool) {
	pos := 0
	for pos <= len(src) {
		ia := strings.Index(src[pos:], d.L)
		ic := strings.Index(src[pos:], d.CL)
		if ia < 0 && ic < 0 {
			if pos < len(src) {
				out = append(out, seg{Kind: segText, Text: src[pos:]})
			}
			return out, true
		}
		isAct := ic < 0 || (ia >= 0 && ia <= ic)
		i := ic
		if isAct {
			i = ia
		}
		if i > 0 {
			out = append(out, seg{Kind: segText, Text: src[pos : pos+i]})
		}
		pos += i
		if isAct {
			pos += len(d.L)
			j := strings.Index(src[pos:], d.R)
			if j < 0 {
				return nil, false
			}
			body := src[pos : pos+j]
			s := seg{Kind: segAct}
			if strings.HasPrefix(body, "- ") {
				s.LT = true
				body = body[2:]
			}
			if strings.HasSuffix(body, " -") {
				s.RT = true
				body = body[:len(body)-2]
			}
			s.Body = strings.TrimSpace(body)
			out = append(out, s)
			pos += j + len(d.R)
		} else {
			pos += len(d.CL)
			j := strings.Index(src[pos:], d.CR)
			if j < 0 {
				return nil, false
			}
			out = append(out, seg{Kind: segComment, Text: src[pos : pos+j]})
			pos += j + len(d.CR)
		}
	}
	return out, true
}

// c03expect computes the expected output of the flat segment list.
func c03expect(segs []seg) string {
	// 1. apply trimming to texts according to the immediately adjacent actions
	texts := make([]string, len(segs))
	for i, s := range segs {
		if s.Kind != segText {
			continue
		}
		t := s.Text
		if i+1 < len(segs) && segs[i+1].Kind == segAct && segs[i+1].LT {
			t = strings.TrimRight(t, c03ws)
		}
		if i > 0 && segs[i-1].Kind == segAct && segs[i-1].RT {
			t = strings.TrimLeft(t, c03ws)
		}
		texts[i] = t
	}
	// 2. header: whitespace-only texts next to leading import clauses are dropped
	hasImport := false
	for _, s := range segs {
		if s.Kind == segAct && s.Eff == effImport {
			hasImport = true
		}
	}
	drop := make([]bool, len(segs))
	if hasImport {
		for i, s := range segs {
			if s.Kind == segText {
				if strings.Trim(s.Text, c03ws) == "" {
					drop[i] = true
					continue
				}
				break
			}
			if s.Kind == segAct && s.Eff == effImport {
				continue
			}
			break
		}
	}
	// 3. interpret
	var b strings.Builder
	var run func(i int, emit bool) int
	// run executes from i until a matching else/end at this nesting level; returns index of that terminator (or len)
	run = func(i int, emit bool) int {
		for i < len(segs) {
			s := segs[i]
			switch s.Kind {
			case segText:
				if emit && !drop[i] {
					b.WriteString(texts[i])
				}
				i++
			case segComment:
				i++
			default:
				switch s.Eff {
				case effMark, effNeg:
					if emit {
						b.WriteString(s.Mark)
					}
					i++
				case effNone, effImport:
					i++
				case effElse, effEnd:
					return i
				case effYieldC:
					i++
				case effIfT, effIfF, effTry, effBlockW, effYieldW:
					cond := s.Eff != effIfF
					j := run(i+1, emit && cond)
					if j < len(segs) && segs[j].Eff == effElse {
						j = run(j+1, emit && !cond)
					}
					i = j + 1
				case effRange:
					var j int
					if s.N == 0 {
						j = run(i+1, false)
					} else {
						for k := 0; k < s.N; k++ {
							j = run(i+1, emit)
						}
					}
					if j < len(segs) && segs[j].Eff == effElse {
						j = run(j+1, emit && s.N == 0)
					}
					i = j + 1
				}
			}
		}
		return i
	}
	run(0, true)
	return b.String()
}

type c03gen struct {
	hasW bool // the template starts with the definition of block w
	r    *rand.Rand
	d    delimCfg
	nm   int
	segs []seg
}

func (g *c03gen) add(s seg) {
	if s.Kind == segText && len(g.segs) > 0 && g.segs[len(g.segs)-1].Kind == segText {
		g.segs[len(g.segs)-1].Text += s.Text
		return
	}
	g.segs = append(g.segs, s)
}

func (g *c03gen) act(eff actEffect, lt, rt bool) seg {
	s := seg{Kind: segAct, Eff: eff, LT: lt, RT: rt}
	if eff != effNeg && g.r.Intn(4) == 0 {
		s.Pad = 1 + g.r.Intn(4)
	}
	switch eff {
	case effMark:
		g.nm++
		s.Mark = fmt.Sprintf("m%dm", g.nm)
		s.Body = `"` + s.Mark + `"`
	case effNeg:
		g.nm++
		s.Mark = fmt.Sprintf("-%d", 1+g.nm%9)
		s.Body = s.Mark
	case effNone:
		g.nm++
		s.Body = fmt.Sprintf("v%d := %d", g.nm, g.nm)
	case effIfT:
		s.Body = "if true"
	case effIfF:
		s.Body = "if false"
	case effTry:
		s.Body = "try"
	case effBlockW:
		s.Body = "block w()"
	case effYieldC:
		s.Body = "yield content"
	case effYieldW:
		s.Body = "yield w() content"
	case effRange:
		s.N = g.r.Intn(3)
		s.Body = fmt.Sprintf("range ints(0,%d)", s.N)
		if s.N == 0 {
			s.Body = "range emptyList"
		}
	case effElse:
		s.Body = "else"
	case effEnd:
		s.Body = "end"
	case effImport:
		s.Body = `import "/lib.jet"`
	}
	return s
}

func (g *c03gen) genList(depth, n int) {
	for i := 0; i < n; i++ {
		switch k := g.r.Intn(10); {
		case k < 4:
			g.add(seg{Kind: segText, Text: c03genText(g.r, g.r.Intn(5))})
		case k < 6:
			g.add(seg{Kind: segComment, Text: c03genComment(g.r, g.d)})
		case k < 8 || depth >= 3:
			eff := effMark
			switch g.r.Intn(6) {
			case 0:
				eff = effNone
			case 1:
				eff = effNeg
			}
			g.add(g.act(eff, g.r.Intn(2) == 0, g.r.Intn(2) == 0))
		default:
			eff := []actEffect{effIfT, effIfF, effRange, effTry}[g.r.Intn(4)]
			if g.hasW && g.r.Intn(3) == 0 {
				eff = effYieldW
			}
			g.add(g.act(eff, g.r.Intn(2) == 0, g.r.Intn(2) == 0))
			if eff == effYieldW && g.r.Intn(3) == 0 {
				g.add(seg{Kind: segText, Text: c03genText(g.r, 2)}) // whitespace-only content is content
			} else {
				g.genList(depth+1, g.r.Intn(4))
			}
			if eff != effTry && eff != effYieldW && g.r.Intn(2) == 0 {
				g.add(g.act(effElse, g.r.Intn(2) == 0, g.r.Intn(2) == 0))
				g.genList(depth+1, g.r.Intn(4))
			}
			g.add(g.act(effEnd, g.r.Intn(2) == 0, g.r.Intn(2) == 0))
		}
	}
}

// the 8 segment shapes of the exhaustive triple enumeration
func (g *c03gen) shape(k int) seg {
	switch k {
	case 0:
		return seg{Kind: segText, Text: c03genText(g.r, 0)}
	case 1:
		return seg{Kind: segText, Text: c03genText(g.r, 1)}
	case 2:
		return seg{Kind: segText, Text: c03genText(g.r, 2)}
	case 3:
		return seg{Kind: segComment, Text: c03genComment(g.r, g.d)}
	}
	if k == 8 {
		return g.act(effNeg, false, false)
	}
	k -= 4
	return g.act(effMark, k&1 != 0, k&2 != 0)
}

const c03shapes = 9

func c03cases(tier string) int {
	if tier == "thorough" {
		return len(delimCfgs) * (c03shapes*c03shapes*c03shapes + 100000)
	}
	return len(delimCfgs) * (c03shapes*c03shapes*c03shapes + 2000)
}

func c03run(c *fw.Ctx, idx int) {
	d := delimCfgs[idx%len(delimCfgs)]
	k := idx / len(delimCfgs)
	r := c.Rand(idx, "c03")
	g := &c03gen{r: r, d: d}
	class := "random"
	if k < c03shapes*c03shapes*c03shapes {
		class = "triple"
		g.add(g.shape(k % c03shapes))
		g.add(g.shape(k / c03shapes % c03shapes))
		g.add(g.shape(k / c03shapes / c03shapes))
	} else {
		if r.Intn(4) == 0 { // import header, optionally preceded by whitespace
			if r.Intn(2) == 0 {
				g.add(seg{Kind: segText, Text: c03genText(r, 2)})
			}
			g.add(g.act(effImport, r.Intn(2) == 0, r.Intn(2) == 0))
			if r.Intn(2) == 0 {
				if r.Intn(2) == 0 {
					g.add(seg{Kind: segText, Text: c03genText(r, 2)})
				}
				g.add(g.act(effImport, r.Intn(2) == 0, r.Intn(2) == 0))
			}
			// first thing after the header is text or an action (not a comment, see DESIGN 2.4)
			if r.Intn(2) == 0 {
				g.add(seg{Kind: segText, Text: c03genText(r, r.Intn(5))})
			} else {
				g.add(g.act(effMark, r.Intn(2) == 0, r.Intn(2) == 0))
			}
			class = "header"
		}
		if class == "random" && r.Intn(3) == 0 {
			g.hasW = true
			g.add(g.act(effBlockW, r.Intn(2) == 0, false))
			g.add(g.act(effYieldC, false, false))
			g.add(g.act(effEnd, false, r.Intn(2) == 0))
		}
		if class == "random" && r.Intn(8) == 0 {
			// a byte order mark is text like any other, also as the very first thing in a file that comes from a loader
			g.add(seg{Kind: segText, Text: "\ufeff" + c03genText(r, r.Intn(5))})
		}
		g.genList(0, 2+r.Intn(7))
	}
	tight := r.Intn(3) == 0
	var sb strings.Builder
	for _, s := range g.segs {
		sb.WriteString(s.src(d, tight))
	}
	src := sb.String()
	desc := map[string]interface{}{"delims": d.Name, "source": src, "class": class}
	c.Begin(idx, desc)
	defer c.End()

	// keep the case only if the independent scanner recovers the intended segmentation
	got, ok := c03scan(src, d)
	if !ok || len(got) != len(g.segs) {
		c.Count("discarded_ambiguous_segmentation", 1)
		return
	}
	for i := range got {
		w := g.segs[i]
		if got[i].Kind != w.Kind || (w.Kind != segAct && got[i].Text != w.Text) || (w.Kind == segAct && (got[i].LT != w.LT || got[i].RT != w.RT || got[i].Body != w.Body)) {
			c.Count("discarded_ambiguous_segmentation", 1)
			return
		}
	}
	if class == "header" {
		// "whitespace-only" next to import clauses is not pinned to a character set by the property:
		// do not judge texts that are whitespace for unicode.IsSpace but not for [ \t\r\n]
		for _, s := range g.segs {
			if s.Kind == segText && strings.TrimSpace(s.Text) == "" && strings.Trim(s.Text, c03ws) != "" {
				c.Count("discarded_unspecified_header_whitespace", 1)
				return
			}
			if s.Kind == segText && strings.TrimSpace(s.Text) != "" {
				break
			}
			if s.Kind == segAct && s.Eff != effImport {
				break
			}
			if s.Kind == segComment {
				// whether whitespace separated from the clauses by a comment is still "next to" them is not specified
				c.Count("discarded_comment_in_header_region", 1)
				return
			}
		}
	}
	want := c03expect(g.segs)
	if idx%5 == 0 {
		// an earlier, unrelated execution that failed half-way through buffered text must not contribute bytes here
		pol := jx.Run(map[string]string{"/pol.jet": "p{{try}}STALE{{ nosuchvar.y }}{{catch}}c{{end}}q{{try}}LEAKED-" + fmt.Sprint(idx) + "{{ nosuchvar.x }}{{end}}r"}, "/pol.jet", nil, nil)
		c.Count("polluting_executions_before_case", 1)
		_ = pol
	}
	files := map[string]string{"/t.jet": src, "/lib.jet": d.L + "block libblock()" + d.R + "LIB" + d.L + "end" + d.R}
	vars := jet.VarMap{}
	vars.Set("emptyList", []int{})
	var res jx.Res
	if idx%3 == 1 {
		// the loader's readers deliver the source in their own way (last bytes together with io.EOF, one byte at a time,
		// half of what is asked for): all of it is the source
		_, inner := jx.NewSet(files)
		mode := (idx / 3) % 3
		res = jx.RunSet(jet.NewSet(c03oddLoader{inner, mode}, d.opts()...), "/t.jet", vars, nil)
		c.Count(fmt.Sprintf("loaded_through_reader_mode_%d", mode), 1)
	} else {
		res = jx.Run(files, "/t.jet", vars, nil, d.opts()...)
	}
	c.Count("executed", 1)
	c.Count("class_"+class, 1)
	c.Count("delims_"+d.Name, 1)
	nontrivial := false
	var code strings.Builder
	for i, s := range g.segs {
		code.WriteString(s.kindCode())
		code.WriteByte(',')
		if s.Kind == segText && strings.Trim(s.Text, c03ws) != s.Text {
			for _, j := range []int{i - 1, i + 1} {
				if j >= 0 && j < len(g.segs) && (g.segs[j].Kind == segComment || (g.segs[j].Kind == segAct && (g.segs[j].LT || g.segs[j].RT))) {
					nontrivial = true
				}
			}
		}
		if s.Kind == segAct && (s.LT || s.RT) {
			c.Count("trim_markers", 1)
		}
		if s.Kind == segComment {
			c.Count("comments", 1)
		}
	}
	if nontrivial {
		c.Distinct(d.Name + "|" + code.String())
	}
	if res.Failed() || res.Out != want {
		first := 0
		for first < len(want) && first < len(res.Out) && want[first] == res.Out[first] {
			first++
		}
		c.Violation("c03:"+class+":"+d.Name+":"+c03diffClass(res, want), "", map[string]interface{}{
			"want": want, "got": res.Out, "error": res.ErrStr(), "first_difference_at_byte": first})
		return
	}
	c.Sample(map[string]interface{}{"delims": d.Name, "source": src, "output": res.Out})
}

func c03diffClass(res jx.Res, want string) string {
	switch {
	case res.Panic != nil:
		return "panic"
	case res.ParseErr != nil:
		return "parse-error"
	case res.Err != nil:
		return "exec-error"
	case len(res.Out) > len(want):
		return "extra-bytes"
	case len(res.Out) < len(want):
		return "missing-bytes"
	}
	return "different-bytes"
}

func init() {
	fw.Register(&fw.Property{
		ID:        "C03",
		Technique: "segment-model output monitor over generated templates (exhaustive 3-segment windows x delimiter configs, then random)",
		Rule: "each case is a template built from a list of segments Text|Comment|Action(trim-left,trim-right) (nested if/range/try/else/end, a block rendering 'yield content' and yields of it with text content, optional leading import clauses) printed in one of 14 delimiter configurations (incl. symmetric comment markers); " +
			"all 729 ordered triples of 9 segment shapes (incl. an action whose body starts with '-') are enumerated per configuration, then random longer lists; a case is kept only if an independent leftmost-opener scanner recovers exactly the intended segmentation; " +
			"oracle: byte-exact comparison with the segment model (text verbatim, trim markers strip the adjacent [ \\t\\r\\n] run only, comments vanish, whitespace-only text next to leading imports dropped) under the default HTML escaper; every 5th case is preceded by an unrelated execution whose try bodies fail after buffering text (nothing of it may show up); " +
			"non-trivial = some text with edge whitespace is adjacent to a comment or a trimming action; distinct by (delimiter config, sequence of segment shapes) Since wave 9: four configurations with only one marker of a pair configured; comment texts that look like trim markers ('- note', '-', ' note -').",
		Assumptions: []string{"actions used in the generated templates (string literal, :=, if true/false, range ints, import) behave as in the segment model", "in-memory loader returns stored bytes"},
		NCases:      c03cases,
		RunCase:     c03run,
		MinDistinct: 500,
	})
}
