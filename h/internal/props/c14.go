package props

import (
	"errors"
	"bytes"
	"encoding/json"
	"fmt"
	"html"
	"math/rand"
	"net/url"
	"reflect"
	"strings"

	"github.com/CloudyKit/jet/v6"
	"verifh/internal/fw"
	"verifh/internal/jx"
)

// C14: pipelines, prefix calls and piped-argument slots are equivalent to plain calls; built-ins expose Go functions.

type c14named string
type c14obj struct{ tag string }

type c14rec struct{ log *[]string }

func (r c14rec) add(s string) string { *r.log = append(*r.log, s); return s }

func (o c14obj) M2(rec func(string) string) func(a string, b int) string {
	return func(a string, b int) string { return rec(fmt.Sprintf("M2[%s](%s,%d)", o.tag, a, b)) }
}

// callables with recorded calls; every one returns a string describing what it received
type c14valObj struct {
	rec *[]string
	tag string
}

func (o c14valObj) M2(a string, b int) string {
	s := fmt.Sprintf("M2<%s>(%q,%d)", o.tag, a, b)
	*o.rec = append(*o.rec, s)
	return s
}
func (o *c14valObj) P2(a string, b int) string {
	s := fmt.Sprintf("P2<%s>(%q,%d)", o.tag, a, b)
	*o.rec = append(*o.rec, s)
	return s
}
func (o c14valObj) MAny(a string, b interface{}) string {
	s := fmt.Sprintf("MAny<%s>(%q,%v)", o.tag, a, b)
	*o.rec = append(*o.rec, s)
	return s
}
func (o c14valObj) M1(a string) string {
	s := fmt.Sprintf("M1<%s>(%q)", o.tag, a)
	*o.rec = append(*o.rec, s)
	return s
}

type c14callee struct {
	name    string   // expression naming the callable in a template
	params  []string // kinds: "s" string, "i" int; last may be "...i" / "...s"
	jetFunc bool
}

var c14callees = []c14callee{
	{"f1", []string{"s"}, false}, {"f2", []string{"s", "i"}, false}, {"f3", []string{"s", "i", "s"}, false},
	{"fv", []string{"s", "...i"}, false}, {"fvs", []string{"...s"}, false}, {"fi2", []string{"i", "i"}, false},
	{"obj.M2", []string{"s", "i"}, false}, {"pobj.P2", []string{"s", "i"}, false}, {"obj.M1", []string{"s"}, false}, {"pobj.M2", []string{"s", "i"}, false},
	{"jf", []string{"*"}, true},
	// callables reached through an index expression
	{`fns["f1"]`, []string{"s"}, false}, {`fns["f2"]`, []string{"s", "i"}, false}, {`fns[kf3]`, []string{"s", "i", "s"}, false}, {`flist[0]`, []string{"s"}, false}, {`fns["jf"]`, []string{"*"}, true},
}

func c14vars(log *[]string) jet.VarMap {
	rec := func(s string) string { *log = append(*log, s); return s }
	vars := jet.VarMap{}
	vars.Set("f1", func(a string) string { return rec(fmt.Sprintf("f1(%q)", a)) })
	f2 := func(a string, b int) string { return rec(fmt.Sprintf("f2(%q,%d)", a, b)) }
	f3 := func(a string, b int, c string) string { return rec(fmt.Sprintf("f3(%q,%d,%q)", a, b, c)) }
	vars.Set("f2", f2)
	vars.Set("f3", f3)
	defer func() {
		fns := map[string]interface{}{"f2": f2, "f3": f3}
		if v, ok := vars["f1"]; ok {
			fns["f1"] = v.Interface()
			vars.Set("flist", []interface{}{v.Interface()})
		}
		if v, ok := vars["jf"]; ok {
			fns["jf"] = v.Interface()
		}
		vars.Set("fns", fns)
		vars.Set("kf3", "f3")
	}()
	vars.Set("fv", func(a string, rest ...int) string { return rec(fmt.Sprintf("fv(%q,%v)", a, rest)) })
	vars.Set("fvs", func(parts ...string) string { return rec(fmt.Sprintf("fvs(%q)", parts)) })
	vars.Set("fi2", func(a, b int) string { return rec(fmt.Sprintf("fi2(%d,%d)", a, b)) })
	vars.Set("fany", func(a interface{}) string { return rec(fmt.Sprintf("fany(%v)", a)) })
	vars.Set("fnoerr", func(a string) error { rec("fnoerr(" + a + ")"); return nil })
	vars.Set("fsomeerr", func(a string) error { rec("fsomeerr(" + a + ")"); return errors.New("E:" + a) })
	vars.Set("fdescribe", func(e error) string {
		if e == nil {
			return rec("fdescribe(nil)")
		}
		return rec("fdescribe(" + e.Error() + ")")
	})
	vars.Set("fptr", func(a *c14valObj) string { return rec(fmt.Sprintf("fptr(%v)", a == nil)) })
	vars.Set("fsl", func(a []string) string { return rec(fmt.Sprintf("fsl(%v)", a)) })
	vars.Set("fmp", func(a map[string]int) string { return rec(fmt.Sprintf("fmp(%v)", a)) })
	vars.Set("ffn", func(a func() string) string { return rec(fmt.Sprintf("ffn(%v)", a == nil)) })
	vars.Set("fsany", func(a string, b interface{}) string { return rec(fmt.Sprintf("fsany(%q,%v)", a, b)) })
	vars.Set("fanyi", func(a interface{}, b int) string { return rec(fmt.Sprintf("fanyi(%v,%d)", a, b)) })
	vars.Set("obj", c14valObj{rec: log, tag: "v"})
	vars.Set("pobj", &c14valObj{rec: log, tag: "p"})
	vars.SetFunc("jf", func(a jet.Arguments) reflect.Value {
		var parts []string
		for i := 0; i < a.NumOfArguments(); i++ {
			v := a.Get(i)
			if v.IsValid() && v.CanInterface() {
				parts = append(parts, fmt.Sprintf("%v", v.Interface()))
			} else {
				parts = append(parts, "<invalid>")
			}
		}
		return reflect.ValueOf(rec(fmt.Sprintf("jf(%s)", strings.Join(parts, ","))))
	})
	vars.SetFunc("jf2", func(a jet.Arguments) reflect.Value {
		a.RequireNumOfArguments("jf2", 2, 2)
		return reflect.ValueOf(rec("jf2"))
	})
	vars.SetFunc("jf0", func(a jet.Arguments) reflect.Value {
		a.RequireNumOfArguments("jf0", 0, 0)
		return reflect.ValueOf(rec("jf0"))
	})
	// argument sources needing conversion
	vars.Set("ns", c14named("named"))
	vars.Set("i8", int8(8))
	vars.Set("u16", uint16(16))
	vars.Set("f64", 4.0)
	vars.Set("bs", []byte("bytes"))
	vars.Set("st", struct{ A int }{1})
	return vars
}

type c14arg struct {
	src  string
	kind string // "s" or "i"
}

func c14argFor(r *rand.Rand, kind string, n *int) c14arg {
	*n++
	switch kind {
	case "s":
		switch r.Intn(5) {
		case 4:
			return c14arg{"bs", "s"} // a []byte converts to a string parameter like in Go
		case 0:
			return c14arg{"ns", "s"}
		case 1:
			return c14arg{fmt.Sprintf("`r%d`", *n), "s"}
		}
		return c14arg{fmt.Sprintf("%q", fmt.Sprintf("a%d", *n)), "s"}
	default:
		switch r.Intn(5) {
		case 0:
			return c14arg{"i8", "i"}
		case 1:
			return c14arg{"u16", "i"}
		case 2:
			return c14arg{"f64", "i"}
		}
		return c14arg{fmt.Sprint(r.Intn(90) + *n%7), "i"}
	}
}

func c14n(tier string) int {
	if tier == "thorough" {
		return 1000000
	}
	return 20000
}

func c14exec(src string) (jx.Res, []string) {
	var log []string
	vars := c14vars(&log)
	res := jx.Run(map[string]string{"/t.jet": "{{ " + src + " }}"}, "/t.jet", vars, nil, jx.NoEscape)
	return res, log
}

func c14run(c *fw.Ctx, idx int) {
	r := c.Rand(idx, "c14")
	if idx < nRebind {
		rebindCase(c, idx, "C14")
		return
	}
	switch idx % 5 {
	case 3:
		c14errors(c, idx, r)
		return
	case 4:
		c14builtins(c, idx, r)
		return
	}
	if idx%5 == 2 {
		c14chain(c, idx, r)
		return
	}
	cal := c14callees[r.Intn(len(c14callees))]
	// concrete argument list
	var args []c14arg
	n := 0
	for _, p := range cal.params {
		switch p {
		case "*":
			for k := r.Intn(4); k >= 0; k-- {
				args = append(args, c14argFor(r, []string{"s", "i"}[r.Intn(2)], &n))
			}
		case "...i", "...s":
			for k := r.Intn(4); k > 0; k-- {
				args = append(args, c14argFor(r, p[3:], &n))
			}
		default:
			args = append(args, c14argFor(r, p, &n))
		}
	}
	srcs := func(as []c14arg) []string {
		var s []string
		for _, a := range as {
			s = append(s, a.src)
		}
		return s
	}
	forms := map[string]string{}
	all := strings.Join(srcs(args), ", ")
	forms["call"] = cal.name + "(" + all + ")"
	if len(args) > 0 {
		forms["prefix"] = cal.name + ": " + all
		rest := strings.Join(srcs(args[1:]), ", ")
		if len(args) > 1 {
			forms["piped-prefix"] = args[0].src + " | " + cal.name + ": " + rest
		} else {
			forms["piped-bare"] = args[0].src + " | " + cal.name
		}
		forms["piped-call"] = args[0].src + " | " + cal.name + "(" + rest + ")"
		for k := range args {
			with := srcs(args)
			with[k] = "_"
			forms[fmt.Sprintf("slot-%d", k)] = args[k].src + " | " + cal.name + "(" + strings.Join(with, ", ") + ")"
		}
	}
	c.Begin(idx, map[string]interface{}{"callee": cal.name, "forms": forms})
	defer c.End()
	ref, refLog := c14exec(forms["call"])
	c.Eval(1)
	if ref.Failed() {
		c.Violation("c14:plain-call-failed:"+cal.name, "", fmt.Sprintf("%s -> %s", forms["call"], ref))
		return
	}
	if len(refLog) != 1 {
		c.Violation("c14:call-count:"+cal.name, "", fmt.Sprintf("%s called the function %d times: %v", forms["call"], len(refLog), refLog))
		return
	}
	for name, src := range forms {
		if name == "call" {
			continue
		}
		got, log := c14exec(src)
		c.Eval(1)
		kind := strings.SplitN(name, "-", 2)[0]
		if strings.HasPrefix(name, "slot") {
			kind = "slot"
			if strings.HasPrefix(cal.params[len(cal.params)-1], "...") || cal.params[0] == "*" {
				kind = "slot-variadic"
			}
		}
		switch {
		case got.Failed():
			c.Violation("c14:form-failed:"+kind+":"+c14calleeKind(cal), "", fmt.Sprintf("%s -> %s; the plain call %s rendered %q", src, got, forms["call"], ref.Out))
			return
		case got.Out != ref.Out:
			c.Violation("c14:form-differs:"+kind+":"+c14calleeKind(cal), "", fmt.Sprintf("%s rendered %q; the plain call %s rendered %q", src, got.Out, forms["call"], ref.Out))
			return
		case fmt.Sprint(log) != fmt.Sprint(refLog):
			c.Violation("c14:call-log-differs:"+kind+":"+c14calleeKind(cal), "", fmt.Sprintf("%s calls %v; plain call %v", src, log, refLog))
			return
		}
	}
	c.Count("intents", 1)
	c.Count("forms", len(forms))
	conv := false
	for _, a := range args {
		if a.src == "ns" || a.src == "i8" || a.src == "u16" || a.src == "f64" || (a.kind == "i") {
			conv = true
		}
	}
	if len(forms) > 2 && conv {
		c.Distinct(cal.name + "|" + fmt.Sprint(len(args)) + "|" + strings.Join(c14kinds(args), ""))
	}
	if idx%499 == 0 {
		c.Sample(map[string]interface{}{"forms": forms, "rendered": ref.Out, "call_log": refLog})
	}
}

func c14kinds(as []c14arg) []string {
	var k []string
	for _, a := range as {
		switch a.src {
		case "ns", "i8", "u16", "f64":
			k = append(k, a.src)
		default:
			k = append(k, a.kind)
		}
	}
	return k
}

func c14calleeKind(cal c14callee) string {
	switch {
	case cal.jetFunc:
		return "jet.Func"
	case strings.Contains(cal.name, "."):
		return "method"
	case strings.HasPrefix(cal.params[len(cal.params)-1], "..."):
		return "variadic"
	}
	return "func"
}

// chains: a pipeline is evaluated left to right and calls each stage exactly once
func c14chain(c *fw.Ctx, idx int, r *rand.Rand) {
	if (idx/5)%10 == 0 {
		// a stage whose result is a nil value of an interface type with methods (error): the next stage receives it as
		// f(x) does, in every form
		fn := []string{"fnoerr", "fsomeerr"}[(idx/50)%2]
		plain := "fdescribe(" + fn + `("a"))`
		ref, refLog := c14exec(plain)
		c.Begin(idx, map[string]interface{}{"interface_typed_result_passed_on": plain})
		defer c.End()
		c.Count("chains_passing_on_interface_typed_results", 1)
		for _, form := range []string{fn + `("a") | fdescribe`, fn + `("a") | fdescribe(_)`, fn + `: "a" | fdescribe`, `"a" | ` + fn + ` | fdescribe`} {
			got, log := c14exec(form)
			c.Eval(1)
			if ref.Failed() || got.Failed() || got.Out != ref.Out || fmt.Sprint(log) != fmt.Sprint(refLog) || len(log) != 2 {
				c.Violation("c14:chain:interface-typed-result", "", fmt.Sprintf("%s -> %s calls %v\n%s -> %s calls %v", form, got, log, plain, ref, refLog))
				return
			}
		}
		c.Distinct("chain-iface|" + fn)
		return
	}
	stages := []string{"f1", "obj.M1", "jf", "fvs", "f2: 5", "fv: 1, 2", "f3(_, 3, \"z\")", "f3(\"y\", 4, _)", "pobj.P2: 9", "fv(\"h\", 7, _)"}
	nested := map[string]string{"f1": "f1(%s)", "obj.M1": "obj.M1(%s)", "jf": "jf(%s)", "fvs": "fvs(%s)", "f2: 5": "f2(%s, 5)", "fv: 1, 2": "fv(%s, 1, 2)",
		"f3(_, 3, \"z\")": "f3(%s, 3, \"z\")", "f3(\"y\", 4, _)": "f3(\"y\", 4, %s)", "pobj.P2: 9": "pobj.P2(%s, 9)", "fv(\"h\", 7, _)": "fv(\"h\", 7, %s)"}
	n := 2 + r.Intn(3)
	piped := `"seed"`
	plain := `"seed"`
	for i := 0; i < n; i++ {
		st := stages[r.Intn(len(stages))]
		if st == "fv(\"h\", 7, _)" && i > 0 {
			st = "f1" // the piped value must be an int for this stage: only as first stage after an int seed
		}
		if st == "fv(\"h\", 7, _)" {
			piped, plain = "3", "3"
		}
		piped += " | " + st
		plain = fmt.Sprintf(nested[st], plain)
	}
	c.Begin(idx, map[string]interface{}{"pipeline": piped, "nested_calls": plain})
	defer c.End()
	a, la := c14exec(piped)
	b, lb := c14exec(plain)
	c.Eval(2)
	c.Count("chains", 1)
	if a.Failed() || b.Failed() || a.Out != b.Out || fmt.Sprint(la) != fmt.Sprint(lb) || len(la) != n {
		c.Violation("c14:chain", "", fmt.Sprintf("%s -> %s calls %v\n%s -> %s calls %v (expected %d calls, innermost first)", piped, a, la, plain, b, lb, n))
		return
	}
	c.Distinct(fmt.Sprintf("chain|%d|%s", n, c14shape(piped)))
}

func c14shape(s string) string {
	for _, d := range "0123456789" {
		s = strings.ReplaceAll(s, string(d), "")
	}
	return s
}

var c14errCases = []struct{ name, src string }{
	{"too-few", `f2("a")`}, {"too-many", `f2("a", 1, 2)`}, {"too-few-prefix", `f3: "a", 1`}, {"too-many-piped", `"a" | f1: "b"`}, {"too-few-piped", `"a" | f3: 1`},
	{"too-few-variadic", `fv()`}, {"too-many-method", `obj.M1("a", "b")`}, {"too-few-method-piped", `"a" | obj.M2`},
	{"inconvertible-string-to-int", `f2("a", "b")`}, {"inconvertible-piped", `"x" | fi2: 1`}, {"inconvertible-slot", `"x" | f2("a", _)`}, {"inconvertible-variadic-tail", `fv("a", 1, "x")`},
	{"inconvertible-slot-in-variadic-tail", `"x" | fv("a", 1, _)`}, {"inconvertible-struct", `f1(st)`}, {"inconvertible-method-arg", `obj.M2("a", "b")`},
	{"nil-argument", `f1(nil)`}, {"nil-piped", `nil | f1`}, {"nil-in-variadic-tail", `fv("a", nil)`}, {"nil-slot", `nil | f2("a", _)`},
	// nil is no value for a parameter of any type, the types that have a nil of their own (interfaces, pointers, slices, maps, functions) included
	{"nil-argument-for-interface-parameter", `fany(nil)`}, {"nil-argument-for-interface-parameter-prefix", `fany: nil`}, {"nil-argument-for-pointer-parameter", `fptr(nil)`},
	{"nil-argument-for-slice-parameter", `fsl(nil)`}, {"nil-argument-for-map-parameter", `fmp(nil)`}, {"nil-argument-for-func-parameter", `ffn(nil)`},
	{"nil-argument-behind-piped-value", `"ab" | fsany: nil`}, {"nil-argument-before-slot", `2 | fanyi(nil, _)`}, {"absent-entry-for-interface-parameter", `fany(fns.absent)`}, {"nil-argument-for-method-interface-parameter", `obj.MAny("l", nil)`},
	{"two-slots-is-parse-error", `1 | f2(_, _)`},
	{"safewriter-not-last", `"a" | raw | f1`}, {"safewriter-first-not-last", `unsafe: "a" | f1`}, {"safewriter-first-then-jetfunc", `unsafe: "a" | jf`}, {"safewriter-middle", `"a" | f1 | safeHtml | f1`},
	{"slot-without-pipe", `f2("a", _)`}, {"slot-without-pipe-jetfunc", `jf(_)`},
	// a piped value that is no value at all is still the first argument: an invalid argument, not "nothing was piped"
	{"nil-piped-into-variadic-only", `nil | fvs`}, {"absent-piped-into-variadic-only", `fns.absent | fvs`}, {"nil-piped-into-variadic-with-args", `nil | fvs: "a"`}, {"absent-piped-into-variadic-tail", `fns.absent | fv: 1`},
	// jet.Funcs with an exact arity (built-in len; user Funcs requiring exactly 0 or 2 arguments) reject surplus arguments in every form
	{"too-many-jetfunc-len", `len("abc", "de")`}, {"too-many-jetfunc-len-prefix", `len: "abc", "de"`}, {"too-many-jetfunc-len-piped", `"abc" | len: "de"`}, {"too-many-jetfunc-len-slot", `"abc" | len("de", _)`},
	{"too-many-jetfunc-exact2", `jf2("a", "b", "c")`}, {"too-many-jetfunc-exact2-piped", `"a" | jf2: "b", "c"`}, {"too-few-jetfunc-exact2", `jf2("a")`}, {"too-many-jetfunc-exact0", `1 | jf0`}, {"too-many-jetfunc-exact0-call", `jf0(1)`},
}

func c14errors(c *fw.Ctx, idx int, r *rand.Rand) {
	e := c14errCases[(idx/5)%len(c14errCases)]
	c.Begin(idx, map[string]interface{}{"must_fail": e.name, "action": e.src})
	defer c.End()
	res, log := c14exec(e.src)
	c.Eval(1)
	c.Count("error_cases", 1)
	if res.Panic != nil {
		c.Violation("c14:panic:"+e.name, "", fmt.Sprintf("%s panicked: %v", e.src, res.Panic))
		return
	}
	if res.Err == nil && res.ParseErr == nil {
		c.Violation("c14:accepted:"+e.name, "", fmt.Sprintf("%s rendered %q (calls %v); a wrong argument count, an invalid value or a misplaced SafeWriter must be an error", e.src, res.Out, log))
		return
	}
	c.Distinct("error|" + e.name)
}

func c14builtins(c *fw.Ctx, idx int, r *rand.Rand) {
	words := []string{"Hello", "wORLD", "", " padded\t", "a,b,c", "<b>&\"'", "Ünï çödé", "aaa", "x=1&y=2 z", "line\nbreak", "nul:\x00:end", "bad\xffutf8", "\u2028sep+plus%25", "\u00a0nbsp\u00a0", "\u3000wide\u2003", "\u0085nel\u0085"}
	w := func() string { return words[r.Intn(len(words))] }
	q := func(s string) string { return fmt.Sprintf("%q", s) }
	s1, s2, s3 := w(), w(), w()
	n := r.Intn(4)
	type bc struct {
		name, src, want string
	}
	js := func(v interface{}) string { b, _ := json.Marshal(v); return string(b) }
	wj := func(v interface{}) string {
		var b bytes.Buffer
		json.NewEncoder(&b).Encode(v)
		return b.String()
	}
	sl := []interface{}{s1, float64(n), true}
	mp := map[string]interface{}{"k": s1, "n": float64(n)}
	cases := []bc{
		{"lower", "lower(" + q(s1) + ")", strings.ToLower(s1)},
		{"upper", q(s1) + " | upper", strings.ToUpper(s1)},
		{"hasPrefix", "hasPrefix(" + q(s1) + ", " + q(s2) + ")", fmt.Sprint(strings.HasPrefix(s1, s2))},
		{"hasPrefix-true", "hasPrefix(" + q(s1+s2) + ", " + q(s1) + ")", "true"},
		{"hasSuffix", q(s1) + " | hasSuffix: " + q(s2), fmt.Sprint(strings.HasSuffix(s1, s2))},
		{"hasSuffix-asym", "hasSuffix(" + q(s1+"#"+s2) + ", " + q(s2) + ")|hasPrefix(" + q(s1+"#"+s2) + ", " + q(s2) + ")", ""},
		{"repeat", "repeat(" + q(s1) + ", " + fmt.Sprint(n) + ")", strings.Repeat(s1, n)},
		{"replace", "replace(" + q(s1) + ", " + q("a") + ", " + q(s3) + ", " + fmt.Sprint(n-1) + ")", strings.Replace(s1, "a", s3, n-1)},
		{"split", "split(" + q(s1) + ", " + q(",") + ")", fmt.Sprint(strings.Split(s1, ","))},
		{"trimSpace", "trimSpace(" + q(s1) + ")", strings.TrimSpace(s1)},
		{"html", "html(" + q(s1) + ")", html.EscapeString(s1)},
		{"url", "url(" + q(s1) + ")", url.QueryEscape(s1)},
		{"json-slice", "json(vs)", js(sl)},
		{"json-map", "json(vm)", js(mp)},
		{"json-string", "json(" + q(s1) + ")", js(s1)},
		{"writeJson", "writeJson(vm)", wj(mp)},
		{"len-string", "len(" + q(s1) + ")", fmt.Sprint(len(s1))},
		{"len-string-multibyte", "len(" + q("日本語"+s1+"🙂é") + ")", fmt.Sprint(len("日本語" + s1 + "🙂é"))},
		{"len-string-multibyte-piped", q("h\u00e9llo\u00a0"+s1) + " | len", fmt.Sprint(len("h\u00e9llo\u00a0" + s1))},
		{"len-string-invalid-utf8", "len(vbad)", "3"},
		{"len-slice", "len(vs)", "3"},
		// isset sees its arguments at the same positions in every call shape
		{"isset-piped-with-extra-argument", q(s1) + " | isset: vs", "true"},
		{"isset-piped-with-unset-extra-argument", q(s1) + " | isset: vm.nosuchkey", "false"},
		{"isset-piped-with-two-extra-arguments", "vs | isset: vm.nosuchkey, vm", "false"},
		{"isset-piped-unset-with-set-extra-argument", "vm.nosuchkey | isset: vs", "false"},
		{"isset-plain-two-arguments", "isset(vs, vm.nosuchkey)", "false"},
		{"map-without-pairs-is-a-fresh-empty-map", "len(map())", "0"},
		{"len-map", "len(vm)", "2"},
		{"len-array", "len(varr)", "4"},
		{"len-ptr-slice", "len(vps)", "3"},
		{"len-ptr-ptr-slice", "len(vpps)", "3"},
		{"len-struct", "len(vst)", "2"},
		{"len-chan", "len(vch)", "2"},
		{"len-iface", "len(vif)", "3"},
	}
	cs := cases[(idx/5)%len(cases)]
	tpl := "{{ " + cs.src + " }}"
	if cs.name == "map-without-pairs-is-a-fresh-empty-map" {
		// maps made by map() are written to by templates: every call yields a map of its own
		tpl = `{{ m := map() }}{{ m.seen = ` + q(s1) + ` }}{{ len(m) }}|{{ len(map()) }}|{{ map() | len }}|{{ isset(map().seen) }}|{{ n := map() }}{{ len(n) }}`
		cs.want = "1|0|0|false|0"
	}
	if cs.name == "hasSuffix-asym" {
		tpl = "{{ hasSuffix(" + q(s1+"#"+s2) + ", " + q(s2) + ") }}|{{ hasPrefix(" + q(s1+"#"+s2) + ", " + q(s1) + ") }}"
		cs.want = "true|true"
	}
	extra := ""
	switch (idx / 5 / len(cases)) % 4 {
	case 1: // ints
		a := r.Intn(5) - 2
		b := a + 1 + r.Intn(4)
		tpl = fmt.Sprintf("{{range i, v := ints(%d, %d)}}%s{{end}}", a, b, "[{{i}}:{{v}}]")
		cs.name, cs.want = "ints", ""
		switch r.Intn(4) { // the other call forms of the same intent
		case 0:
			tpl = fmt.Sprintf("{{ %d | ints: %d | showr }}", a, b)
			cs.name = "ints-piped-prefix"
		case 1:
			tpl = fmt.Sprintf("{{ %d | ints(%d) | showr }}", a, b)
			cs.name = "ints-piped-call"
		case 2:
			tpl = fmt.Sprintf("{{ %d | ints(%d, _) | showr }}", b, a)
			cs.name = "ints-slot"
		}
		for i, v := 0, a; v < b; i, v = i+1, v+1 {
			cs.want += fmt.Sprintf("[%d:%d]", i, v)
		}
	case 2: // map
		tpl = "{{ m := map(\"a\", " + q(s1) + ", \"b\", " + fmt.Sprint(n) + ") }}{{ m.a }}|{{ m[\"b\"] }}|{{ len(m) }}|{{ isset(m.c) }}"
		cs.name, cs.want = "map", s1+"|"+fmt.Sprint(n)+"|2|false"
	case 3: // slice / array
		fn := []string{"slice", "array"}[r.Intn(2)]
		tpl = "{{ s := " + fn + "(" + q(s1) + ", " + fmt.Sprint(n) + ", true) }}{{ s[0] }}|{{ s[1] }}|{{ s[2] }}|{{ len(s) }}"
		cs.name, cs.want = fn, s1+"|"+fmt.Sprint(n)+"|true|3"
	}
	_ = extra
	c.Begin(idx, map[string]interface{}{"builtin": cs.name, "template": tpl, "go_result": cs.want})
	defer c.End()
	vars := jet.VarMap{}
	ps := []int{1, 2, 3}
	pps := &ps
	ch := make(chan int, 5)
	ch <- 1
	ch <- 2
	vars.Set("showr", func(rg jet.Ranger) string {
		var b strings.Builder
		for k, v, end := rg.Range(); !end; k, v, end = rg.Range() {
			fmt.Fprintf(&b, "[%v:%v]", k.Interface(), v.Interface())
		}
		return b.String()
	})
	vars.Set("vs", sl).Set("vm", mp).Set("varr", [4]int{}).Set("vps", &ps).Set("vpps", &pps).Set("vst", struct{ A, B int }{}).Set("vch", ch).Set("vif", interface{}([]string{"a", "b", "c"})).Set("vbad", "a\xff\xfe")
	res := jx.Run(map[string]string{"/t.jet": tpl}, "/t.jet", vars, nil, jx.NoEscape)
	c.Eval(1)
	c.Count("builtin_cases", 1)
	if res.Failed() || res.Out != cs.want {
		c.Violation("c14:builtin:"+cs.name, "", fmt.Sprintf("%s rendered %s; the Go function gives %q", tpl, res, cs.want))
		return
	}
	c.Distinct("builtin|" + cs.name + "|" + fmt.Sprint(len(s1) > 0, n))
}

func init() {
	fw.Register(&fw.Property{
		ID:        "C14",
		Technique: "metamorphic monitor with recorded call log: every surface form of a call intent must render and call exactly like the plain call; built-ins compared differentially with the Go functions they expose",
		Rule: "60 rebinding histories first (one Set, the same templates executed while the name of a built-in is rebound in VarMap and Set globals: x | f, x | g | f, x | f(), f: x and f(x) must all call what f resolves to in that execution); then 2/5 of the cases: a call intent (callee among reflected fixed-arity funcs, variadic funcs, value/pointer-receiver methods and a jet.Func; arguments among string/raw-string/number literals and variables needing conversion: named string, int8, uint16, float64) is printed as f(x,a,b), f: x,a,b, x | f: a,b, x | f(a,b) and with the '_' slot at every position (incl. the variadic tail); " +
			"output and the recorded (callee, received arguments) log must equal the plain call's, with exactly one call; 1/5: pipelines of 2-4 stages (mixed forms and slots) against the nested plain calls, innermost first, each once; 1/5: 45 directed error cases (wrong count in every form, inconvertible or nil arguments incl. slots, variadic tails and parameters of interface/pointer/slice/map/func type, misplaced SafeWriter stages, '_' without pipe) must fail without panicking; " +
			"1/5: built-ins lower, upper, hasPrefix, hasSuffix, repeat, replace, split, trimSpace, html, url, json, writeJson, len (string, slice, map, array, *slice, **slice, struct, chan, interface), ints, map, slice/array on random arguments against the Go functions; non-trivial = intent with >=3 forms and an argument needing conversion; distinct by (callee, arity, argument kinds)",
		Assumptions: []string{"numeric arguments that need conversion are integral (float truncation is Go's conversion rule)"},
		NCases:      c14n,
		RunCase:     c14run,
		MinDistinct: 150,
	})
}
