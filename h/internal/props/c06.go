package props

import (
	"fmt"
	"math/rand"
	"reflect"
	"strings"

	"github.com/CloudyKit/jet/v6"
	"verifh/internal/data"
	"verifh/internal/fw"
	"verifh/internal/jx"
)

// C06: field, index, slice and method access reach Go data uniformly and fail loudly.

var c06mintN int

// c06mint builds a struct type that did not exist before (so the struct-field cache is built on first access)
// whose shape exercises promotion and shadowing; returns a value of it and the root to resolve against.
func c06mint(r *rand.Rand, g *data.Gen) (interface{}, string) {
	c06mintN++
	uniq := fmt.Sprintf("Uniq%d", c06mintN)
	str := reflect.TypeOf("")
	in := g.Root()
	var fields []reflect.StructField
	kind := ""
	switch r.Intn(4) {
	case 0: // outer Name declared before the embedded struct
		kind = "minted-shadow-before"
		fields = []reflect.StructField{{Name: "Name", Type: str}, {Name: "Inner", Type: reflect.TypeOf(data.Inner{}), Anonymous: true}, {Name: uniq, Type: str}}
	case 1: // declared after
		kind = "minted-shadow-after"
		fields = []reflect.StructField{{Name: uniq, Type: str}, {Name: "Inner", Type: reflect.TypeOf(data.Inner{}), Anonymous: true}, {Name: "Name", Type: str}}
	case 2: // four levels of embedding by value
		kind = "minted-deep-embedding"
		fields = []reflect.StructField{{Name: "L0", Type: reflect.TypeOf(data.L0{}), Anonymous: true}, {Name: uniq, Type: str}}
	case 3: // embedded pointer, nil or not
		kind = "minted-embedded-pointer"
		fields = []reflect.StructField{{Name: uniq, Type: str}, {Name: "PInner", Type: reflect.TypeOf(&data.PInner{}), Anonymous: true}}
	}
	t := reflect.StructOf(fields)
	v := reflect.New(t).Elem()
	for i := 0; i < t.NumField(); i++ {
		f := t.Field(i)
		switch {
		case f.Type == str:
			v.Field(i).SetString(g.Tok())
		case f.Name == "Inner":
			v.Field(i).Set(reflect.ValueOf(in.In))
		case f.Name == "L0":
			v.Field(i).Set(reflect.ValueOf(in.L))
		case f.Name == "PInner":
			if r.Intn(2) == 0 {
				v.Field(i).Set(reflect.ValueOf(&data.PInner{X: g.Tok(), Y: 3}))
				kind += "-set"
			} else {
				kind += "-nil"
			}
		}
	}
	if r.Intn(2) == 0 {
		return v.Addr().Interface(), kind
	}
	return v.Interface(), kind
}

func c06vars(root interface{}) jet.VarMap {
	vars := jet.VarMap{}
	vars.Set("r", root)
	for k, v := range data.Vars {
		vars.Set(string(k), v)
	}
	return vars
}

func c06n(tier string) int {
	if tier == "thorough" {
		return 3000000
	}
	return 60000
}

type c06case struct {
	rootKind string
	root     interface{}
	path     data.Path
	how      string
	base     string
}

// c06directed enumerates every index in [-1, len+1] and every slice bound pair in [-1, len+2]^2 (with omitted
// bounds) for each sequence-valued field of Root.
var c06directed = func() []data.Path {
	var ps []data.Path
	lens := map[string]int{"Strs": 3, "Ints": 3, "Ifaces": 5, "Structs": 2, "Ptrs": 2, "Arr": 3, "PSl": 2, "Cap": 2, "Str": 3, "NilSl": 0, "PPSl": 2, "PPStr": 3}
	for _, f := range []string{"Strs", "Ints", "Ifaces", "Structs", "Ptrs", "Arr", "PSl", "Cap", "Str", "NilSl", "PPSl", "PPStr"} {
		n := lens[f]
		for i := -1; i <= n+1; i++ {
			ps = append(ps, data.Path{Steps: []data.Step{{Kind: data.SField, Name: f}, {Kind: data.SIndex, Index: i}}})
		}
		if f == "Arr" {
			continue
		}
		for lo := -1; lo <= n+2; lo++ {
			for hi := -1; hi <= n+2; hi++ {
				ps = append(ps, data.Path{Steps: []data.Step{{Kind: data.SField, Name: f}, {Kind: data.SSlice, Lo: lo, Hi: hi, HasLo: true, HasHi: true}}})
			}
			ps = append(ps, data.Path{Steps: []data.Step{{Kind: data.SField, Name: f}, {Kind: data.SSlice, Lo: lo, HasLo: true, Hi: n}}})
			ps = append(ps, data.Path{Steps: []data.Step{{Kind: data.SField, Name: f}, {Kind: data.SSlice, Hi: lo, HasHi: true}}})
		}
		ps = append(ps, data.Path{Steps: []data.Step{{Kind: data.SField, Name: f}, {Kind: data.SSlice, Hi: n}}})
		// the same bounds held in variables of every integer kind (a bound is an integer, whatever its width)
		for ki, kind := range data.BoundKinds {
			for lo := 0; lo <= n+1 && lo <= 5; lo++ {
				for hi := lo; hi <= n+1 && hi <= 6; hi++ {
					if (lo+hi+ki)%2 == 1 && lo != hi-1 {
						continue // thin out; adjacent bounds always
					}
					lr, hr := fmt.Sprintf("b%s%d", kind, lo), fmt.Sprintf("b%s%d", kind, hi)
					ps = append(ps, data.Path{Steps: []data.Step{{Kind: data.SField, Name: f}, {Kind: data.SSlice, Lo: lo, Hi: hi, HasLo: true, HasHi: true, LoRef: lr, HiRef: hr}}})
					ps = append(ps, data.Path{Steps: []data.Step{{Kind: data.SField, Name: f}, {Kind: data.SSlice, Lo: lo, Hi: n, HasLo: true, LoRef: lr}}})
					ps = append(ps, data.Path{Steps: []data.Step{{Kind: data.SField, Name: f}, {Kind: data.SSlice, Hi: hi, HasHi: true, HiRef: hr}}})
				}
			}
		}
	}
	return ps
}()

func c06build(r *rand.Rand, idx int) c06case {
	g := &data.Gen{R: r}
	var cs c06case
	if idx < len(c06directed) {
		cs.root, cs.rootKind, cs.base = g.Root(), "*Root", "r"
		cs.path, cs.how = c06directed[idx], "directed-bounds"
		// a negative literal is written through a variable (a literal -1 after '[' is fine, but keep the spelling uniform)
		return cs
	}
	switch idx % 5 {
	case 0:
		cs.root, cs.rootKind = g.Root(), "*Root"
	case 1:
		cs.root, cs.rootKind = *g.Root(), "Root"
	case 2:
		cs.root, cs.rootKind = g.Root(), "*Root-as-context"
		cs.base = "."
	case 3:
		cs.root, cs.rootKind = c06mint(r, g)
	case 4:
		// an interface-typed container holding the root
		cs.root, cs.rootKind = map[string]interface{}{"root": g.Root(), "list": []interface{}{g.Root()}}, "map[string]interface{}"
	}
	if cs.base == "" {
		cs.base = "r"
	}
	rv := reflect.ValueOf(cs.root)
	switch k := r.Intn(10); {
	case k == 0 && strings.Contains(cs.rootKind, "Root") && !strings.HasPrefix(cs.rootKind, "map"):
		cs.path = data.NilPaths[r.Intn(len(data.NilPaths))]
		cs.how = "through-nil"
	default:
		cs.path = data.GenPath(r, rv, 1+r.Intn(6))
		if k < 5 {
			cs.path, cs.how = data.Corrupt(r, rv, cs.path)
		}
	}
	return cs
}

func c06pathShape(p data.Path) string {
	var b strings.Builder
	for _, s := range p.Steps {
		switch s.Kind {
		case data.SField:
			if s.Bracket {
				b.WriteString("B")
			} else {
				b.WriteString("F")
			}
		case data.SIndex:
			switch s.Index.(type) {
			case data.VarRef:
				b.WriteString("v")
			case string:
				b.WriteString("s")
			default:
				b.WriteString("i")
			}
		case data.SSlice:
			b.WriteString(fmt.Sprintf("S%v%v", s.HasLo, s.HasHi)[:3])
		case data.SCall:
			b.WriteString("C")
		}
	}
	return b.String()
}

func c06run(c *fw.Ctx, idx int) {
	r := c.Rand(idx, "c06")
	cs := c06build(r, idx)
	if len(cs.path.Steps) == 0 {
		c.Count("empty_paths", 1)
		return
	}
	src := cs.path.Src(cs.base)
	c.Begin(idx, map[string]interface{}{"root": cs.rootKind, "access": src, "corruption": cs.how})
	defer c.End()
	if idx == 0 {
		c06ambiguous(c)
	}
	res := data.Resolve(reflect.ValueOf(cs.root), cs.path)
	if res.Out == data.OUnspecified {
		c.Count("discarded_unspecified:"+res.Why, 1)
		return
	}
	var ctx interface{}
	vars := c06vars(cs.root)
	if cs.base == "." {
		ctx = cs.root
	}
	out := jx.Run(map[string]string{"/t.jet": "{{ " + src + " }}"}, "/t.jet", vars, ctx, jx.NoEscape)
	c.Count("accesses", 1)
	c.Count("outcome_"+res.Out.String(), 1)
	if cs.how != "" {
		c.Count("corruption_"+cs.how, 1)
	}
	sig := func(k string) string {
		return "c06:" + k + ":" + cs.how + ":" + strings.SplitN(cs.rootKind, "-", 2)[0]
	}
	switch {
	case out.Panic != nil:
		c.Violation(sig("panic"), "", fmt.Sprintf("%s panicked: %v (reference: %s %s)", src, out.Panic, res.Out, res.Why))
		return
	case out.ParseErr != nil:
		c.Violation(sig("parse-error"), "", fmt.Sprintf("%s: %v", src, out.ParseErr))
		return
	}
	switch res.Out {
	case data.OError:
		if out.Err == nil {
			c.Violation(sig("silent-failure"), "", fmt.Sprintf("%s rendered %q without error; reference: error (%s at step %d)", src, out.Out, res.Why, res.FailAt))
			return
		}
	case data.ONil:
		if out.Err != nil {
			c.Violation(sig("error-instead-of-nil"), "", fmt.Sprintf("%s failed with %v; reference: nil (%s)", src, out.Err, res.Why))
			return
		}
		switch out.Out {
		case "", "<nil>", "map[]", "[]":
		default:
			c.Violation(sig("value-instead-of-nil"), "", fmt.Sprintf("%s rendered %q; reference: nil (%s)", src, out.Out, res.Why))
			return
		}
	case data.OValue:
		if out.Err != nil {
			c.Violation(sig("error-on-valid-access"), "", fmt.Sprintf("%s failed with %v; the data holds a value there", src, out.Err))
			return
		}
		if want, scalar := data.Printed(res.V); scalar && out.Out != want {
			c.Violation(sig("wrong-value"), "", fmt.Sprintf("%s rendered %q, the data holds %q there", src, out.Out, want))
			return
		}
	}
	if len(cs.path.Steps) >= 2 || res.Out == data.OError {
		c.Distinct(cs.rootKind + "|" + c06pathShape(cs.path) + "|" + cs.how + "|" + res.Out.String())
	}
	if idx%1999 == 0 {
		c.Sample(map[string]interface{}{"root": cs.rootKind, "access": src, "reference": res.Out.String() + " " + res.Why, "rendered": out.Out, "error": out.ErrStr()})
	}
}

// A name promoted from two embedded structs at the same depth is ambiguous under Go's selector rules: it is no field
// (reflect.FieldByName reports !ok), so reaching for it is a missing-field error, while every unambiguous member of the
// same struct is reached as usual. The generated data graphs have no such struct; this directed probe runs with case 0.
type C06AmbA struct{ Name, OnlyA string }
type C06AmbB struct{ Name string }
type C06Amb struct {
	C06AmbA
	C06AmbB
	Title string
}
type C06AmbP struct {
	C06AmbA
	*C06AmbB
}

func c06ambiguous(c *fw.Ctx) {
	amb := C06Amb{C06AmbA{"left", "onlyA"}, C06AmbB{"right"}, "t"}
	ambp := C06AmbP{C06AmbA{"left", "onlyA"}, &C06AmbB{"right"}}
	for _, round := range []int{1, 2} { // twice: the second round is served from jet's per-type field cache
		for _, e := range []struct{ src, want string }{
			{`amb.Name`, ""}, {`amb["Name"]`, ""}, {`pamb.Name`, ""}, {`list[0].Name`, ""}, {`ambp.Name`, ""}, {`ambp["Name"]`, ""},
			{`amb.OnlyA`, "onlyA"}, {`amb.Title`, "t"}, {`amb.C06AmbA.Name`, "left"}, {`amb.C06AmbB.Name`, "right"}, {`pamb["OnlyA"]`, "onlyA"},
			{`ambp.OnlyA`, "onlyA"}, {`ambp.C06AmbB.Name`, "right"},
		} {
			vars := jet.VarMap{}
			vars.Set("amb", amb).Set("pamb", &amb).Set("list", []interface{}{amb}).Set("ambp", ambp)
			out := jx.Run(map[string]string{"/t.jet": "{{ " + e.src + " }}"}, "/t.jet", vars, nil, jx.NoEscape)
			c.Count("ambiguous_probe_accesses", 1)
			switch {
			case out.Panic != nil || out.ParseErr != nil:
				c.Violation("c06:panic:ambiguous-promoted-name", "", fmt.Sprintf("round %d: %s: %s", round, e.src, out))
			case e.want == "" && out.Err == nil:
				c.Violation("c06:silent-failure:ambiguous-promoted-name", "", fmt.Sprintf("round %d: %s rendered %q without error; the name is promoted from two embedded structs at one depth, so it is no field", round, e.src, out.Out))
			case e.want != "" && (out.Err != nil || out.Out != e.want):
				c.Violation("c06:wrong-value:beside-ambiguous-name", "", fmt.Sprintf("round %d: %s: want %q, got %s", round, e.src, e.want, out))
			}
		}
	}
}

func init() {
	fw.Register(&fw.Property{
		ID:        "C06",
		Technique: "reference-resolver monitor: generated access paths into generated Go data graphs (unique leaf tokens) resolved by plain reflect following Go's rules and compared with what the template renders",
		Rule: "each case is one access path (1-6 steps: .Field, [\"Field\"], [i] with literal / Go-int / narrow-int variable, [k] with key literal or key-typed variable, [i:j] with omitted bounds, method calls with arguments) into a graph of structs (exported/unexported fields, embedding by value 4 levels deep and by pointer, shadowing declared before/after the embedded struct), " +
			"maps keyed by string/int/named string, typed and interface slices (incl. len<cap), arrays, strings, multi-level nil and non-nil pointers and interfaces; the root is a *Root, a Root value, the context '.', a struct type minted at run time with reflect.StructOf (fresh struct-field cache) or an interface-typed container; " +
			"half of the paths get one step corrupted (missing/unexported field, missing method, index -1/len/far, key or index of the wrong kind, absent key, slice bound past len or inverted, access on nil or on a scalar) at a random depth; " +
			"oracle: value -> the rendered scalar equals the stored leaf token; nil -> no error and empty/<nil> output; error -> Execute returns an error and does not panic; non-trivial = path length >=2 or failing step; distinct by (root kind, step kinds, corruption, outcome) Since wave 9: method steps are spelt a[\"Method\"](args) a quarter of the time; the data holds a struct with non-ASCII exported field names (one of them promoted through an embedded pointer).",
		Assumptions: []string{"reflect.FieldByName, MapIndex, method sets and bounds define 'the value stored in the data'", "shapes the statement leaves open (method value without call, absent key through dot access, non-integral index, slicing arrays, string-variable index on structs) are discarded and counted"},
		NCases:      c06n,
		RunCase:     c06run,
		MinDistinct: 500,
	})
}

var _ = rand.Int
