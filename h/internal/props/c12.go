package props

import (
	"errors"
	"fmt"
	"math/rand"
	"reflect"
	"strings"

	"github.com/CloudyKit/jet/v6"
	"verifh/internal/fw"
	"verifh/internal/jx"
	"verifh/internal/prog"
)

// C12: evaluation failures become errors naming file and line; the prefix is written, nothing after.

type c12class struct {
	Name       string
	Src        string // a complete action (or several on one line)
	Positioned bool   // jet detects it itself: the message must carry ("file":line)
	JetFunc    bool   // raised inside a jet.Func built-in (known finding K3: no position)
}

type c12struct struct {
	A    string
	priv string
}

func (c12struct) M(i int) string { return fmt.Sprint(i) }

var c12classes = []c12class{
	{"unknown-identifier", `{{ zq_nosuch }}`, true, false},
	{"unknown-identifier-in-expr", `{{ 1 + zq_nosuch }}`, true, false},
	{"unknown-identifier-as-arg", `{{ trimSpace(zq_nosuch) }}`, true, false},
	{"unknown-field-struct", `{{ zq_st.Nope }}`, true, false},
	{"unknown-field-context", `{{ zq_st.A.Nope }}`, true, false},
	{"unexported-field", `{{ zq_st.priv }}`, true, false},
	{"field-of-nil", `{{ zq_nilp.X }}`, true, false},
	{"unknown-method", `{{ zq_st.Nope() }}`, true, false},
	{"unknown-block", `{{yield zq_noblock()}}`, true, false},
	{"unknown-block-with-content", `{{yield zq_noblock() content}}x{{end}}`, true, false},
	{"unknown-template", `{{include "/zq/nosuch.jet"}}`, true, false},
	{"unknown-template-computed", `{{include "/zq/" + "nosuch"}}`, true, false},
	{"include-name-not-string", `{{include zq_xs}}`, true, false},
	{"index-wrong-kind", `{{ zq_xs["a"] }}`, true, false},
	{"index-struct-with-int", `{{ zq_st[1] }}`, true, false},
	{"index-out-of-range", `{{ zq_xs[3] }}`, true, false},
	{"index-negative", `{{ zq_xs[-1] }}`, true, false},
	{"index-string-out-of-range", `{{ zq_s[9] }}`, true, false},
	{"index-nil", `{{ zq_xs[nil] }}`, true, false},
	{"index-of-int", `{{ zq_i[0] }}`, true, false},
	{"map-key-wrong-kind", `{{ zq_mi["a"] }}`, true, false},
	{"map-unhashable-key", `{{ zq_many[zq_xs] }}`, true, false},
	{"map-unhashable-dynamic-key", `{{ zq_many[zq_dyn] }}`, true, false},
	{"map-unhashable-array-key", `{{ zq_mpair[zq_pair] }}`, true, false},
	{"slice-bound-wrong-kind", `{{ zq_xs["a":1] }}`, true, false},
	{"slice-end-wrong-kind", `{{ zq_xs[0:"b"] }}`, true, false},
	{"slice-out-of-range", `{{ zq_xs[1:9] }}`, true, false},
	{"slice-inverted", `{{ zq_xs[2:1] }}`, true, false},
	{"slice-negative", `{{ zq_xs[-1:] }}`, true, false},
	{"slice-of-int", `{{ zq_i[0:1] }}`, true, false},
	{"mul-string-literal", `{{ "a" * 2 }}`, true, false},
	{"mul-string-var", `{{ zq_s * 2 }}`, true, false},
	{"div-bool", `{{ true / 2 }}`, true, false},
	{"mod-string", `{{ zq_s % 2 }}`, true, false},
	{"minus-string", `{{ zq_s - 1 }}`, true, false},
	{"add-struct", `{{ zq_st + 1 }}`, true, false},
	{"add-nil-right", `{{ 1 + nil }}`, true, false},
	{"unary-minus-string", `{{ -zq_s }}`, true, false},
	{"compare-string-left", `{{ zq_s < 1 }}`, true, false},
	{"compare-bool-left", `{{ true >= 1 }}`, true, false},
	{"compare-string-right", `{{ 1 < zq_s }}`, true, false},
	{"mul-string-right", `{{ 2 * zq_s }}`, true, false},
	{"int-minus-string", `{{ zq_i - zq_s }}`, true, false},
	{"int-plus-struct", `{{ zq_i + zq_st }}`, true, false},
	{"float-div-slice", `{{ 1.5 / zq_xs }}`, true, false},
	{"int-mod-nil", `{{ zq_i % nil }}`, true, false},
	{"compare-int-with-struct", `{{ zq_i >= zq_st }}`, true, false},
	{"uint-plus-string", `{{ zq_u + zq_s }}`, true, false},
	{"uint-minus-string", `{{ zq_u - zq_s }}`, true, false},
	{"uint-mul-string", `{{ zq_u8 * zq_s }}`, true, false},
	{"uint-div-string", `{{ zq_u / "abc" }}`, true, false},
	{"uint-mod-string", `{{ zq_u % zq_s }}`, true, false},
	{"uint-less-string", `{{ zq_u < zq_s }}`, true, false},
	{"uint-greater-equal-string", `{{ zq_u8 >= "x1" }}`, true, false},
	{"float-minus-string", `{{ zq_f - zq_s }}`, true, false},
	{"float-less-string", `{{ zq_f <= zq_s }}`, true, false},
	{"int-less-string", `{{ zq_i > "seven" }}`, true, false},
	{"two-value-lookup-index-out-of-range", `{{ v, ok := zq_xs[7] }}`, true, false},
	{"two-value-lookup-negative-index", `{{ v, ok := zq_xs[-1] }}`, true, false},
	{"two-value-lookup-string-index-on-slice", `{{ if v, ok := zq_xs["a"]; ok }}x{{ end }}`, true, false},
	{"two-value-lookup-key-of-wrong-kind", `{{ v, ok := zq_mi["a"] }}`, true, false},
	{"two-value-lookup-on-int", `{{ _, ok := zq_i[0] }}`, true, false},
	{"two-value-assign-index-out-of-range", `{{ v := 1 }}{{ ok := 1 }}{{ v, ok = zq_xs[7] }}`, true, false},
	{"piped-into-function-without-parameters", `{{ "x" | zq_now }}`, true, false},
	{"argument-to-function-without-parameters", `{{ zq_now(1) }}`, true, false},
	{"piped-with-arguments-into-function-without-parameters", `{{ "x" | zq_now: 2 }}`, true, false},
	{"field-below-absent-map-entry", `{{ zq_users.bob.A }}`, true, false},
	{"field-below-absent-map-entry-deeper", `{{ zq_cfg.db.missing.host.port }}`, true, false},
	{"field-below-absent-map-entry-in-expression", `{{ "x" + zq_users.bob.A }}`, true, false},
	{"index-nil-on-map", `{{ zq_mi[nil] }}`, true, false},
	{"index-nil-on-string-map-two-value", `{{ v, ok := zq_many[nil] }}`, true, false},
	{"call-nil-value-with-arguments", `{{ zq_msi.absent(1) }}`, true, false},
	{"call-nil-value-prefix-form", `{{ zq_msi.absent: 1 }}`, true, false},
	{"call-nil-value-in-expression", `{{ 1 + zq_msi.absent(1) }}`, true, false},
	{"call-nil-value-piped", `{{ 1 | zq_msi.absent }}`, true, false},
	{"embedded-field-of-unexported-type-by-name", `{{ zq_emb.c12hidden }}`, true, false},
	{"embedded-field-of-unexported-type-as-argument", `{{ trimSpace(zq_emb.c12hidden) }}`, true, false},
	{"string-plus-nil", `{{ "text" + nil }}`, true, false},
	{"string-plus-absent-map-entry", `{{ "Hello, " + zq_msi.absent }}`, true, false},
	{"call-nil-value-without-arguments", `{{ zq_msi.absent() }}`, true, false},
	{"call-nil-variable-without-arguments", `{{ zq_hook := nil }}{{ zq_hook() }}`, true, false},
	{"call-nil-value-without-arguments-in-expression", `{{ "" + zq_msi.absent() }}`, true, false},
	{"call-non-func-paren", `{{ zq_i() }}`, true, false},
	{"call-non-func-colon", `{{ zq_i: 1 }}`, true, false},
	{"call-non-func-pipe", `{{ 1 | zq_i }}`, true, false},
	{"call-literal", `{{ "x": 1 }}`, true, false},
	{"too-few-args", `{{ trimSpace() }}`, true, false},
	{"too-many-args", `{{ trimSpace("a", "b") }}`, true, false},
	{"too-many-args-piped", `{{ "a" | trimSpace: "b" }}`, true, false},
	{"too-few-args-method", `{{ zq_st.M() }}`, true, false},
	{"inconvertible-arg", `{{ trimSpace(zq_st) }}`, true, false},
	{"inconvertible-arg-method", `{{ zq_st.M("x") }}`, true, false},
	{"inconvertible-piped-arg", `{{ zq_xs | trimSpace }}`, true, false},
	{"arg-not-implementing-interface-param", `{{ zq_stringer(42) }}`, true, false},
	{"piped-arg-not-implementing-interface-param", `{{ "x" | zq_stringer }}`, true, false},
	{"nil-arg", `{{ trimSpace(nil) }}`, true, false},
	{"range-non-rangeable-int", `{{range zq_i}}x{{end}}`, true, false},
	{"range-non-rangeable-string", `{{range zq_s}}x{{end}}`, true, false},
	{"range-nil", `{{range nil}}x{{end}}`, true, false},
	{"range-one-var-non-rangeable-int", `{{range v := zq_i}}x{{end}}`, true, false},
	{"range-two-var-non-rangeable-string", `{{range k, v := zq_s}}x{{end}}`, true, false},
	{"range-one-var-nil", `{{range v := nil}}x{{end}}`, true, false},
	{"range-assign-form-non-rangeable", `{{k := 0}}{{v := 0}}{{range k, v = zq_st}}x{{end}}`, true, false},
	{"range-one-var-nil-pointer", `{{range v := zq_nilp}}x{{else}}e{{end}}`, true, false},
	{"slice-open-end-start-past-len", `{{ zq_xs[4:] }}`, true, false},
	{"slice-open-end-start-past-len-string", `{{ zq_s[9:] }}`, true, false},
	{"slice-open-end-start-far", `{{ zq_xs[70:] }}`, true, false},
	{"slice-open-end-start-past-len-variable", `{{ zq_xs[zq_i:] }}`, true, false},
	{"range-nil-pointer", `{{range zq_nilp}}x{{end}}`, true, false},
	{"range-two-var-no-index", `{{range k, v := zq_ch}}x{{end}}`, true, false},
	{"range-two-var-no-index-assignment-form", `{{ zq_k := 0 }}{{ zq_v := 0 }}{{range zq_k, zq_v = zq_ch}}x{{end}}`, true, false},
	{"slice-of-array-reached-by-value", `{{ zq_arrv.Cells[1:3] }}`, true, false},
	{"slice-of-array-element-reached-by-value", `{{ zq_arrv.Rows[0][:1] }}`, true, false},
	{"yield-arg-without-value", `{{yield zq_blk(q)}}`, true, false},
	{"slot-without-pipe", `{{ trimSpace(_) }}`, true, false},
	{"slot-without-pipe-in-variadic-tail", `{{ zq_join("-", "a", _) }}`, true, false},
	{"slot-without-pipe-first-of-variadic", `{{ zq_join(_, "a") }}`, true, false},
	{"slot-without-pipe-variadic-only", `{{ zq_cat(_) }}`, true, false},
	{"slot-without-pipe-prefix-form", `{{ zq_join: "-", _ }}`, true, false},
	{"assign-undeclared", `{{ zq_undeclared = 1 }}`, true, false},
	{"block-param-without-default", `{{block zq_blk2(p)}}x{{end}}`, true, false},
	{"func-panics-with-error", `{{ zq_fail() }}`, false, false},
	{"func-panics-with-error-piped", `{{ 1 | zq_fail1 }}`, false, false},
	{"jetfunc-panicf", `{{ zq_jf(1) }}`, false, false},
	// an error value that wraps a Go runtime error somewhere in its chain is still an error the function reports
	{"func-reports-error-wrapping-runtime-error", `{{ zq_failwrap() }}`, false, false},
	{"jetfunc-panicf-wrapping-runtime-error", `{{ zq_jfwrap(1) }}`, false, false},
	{"ints-bad-range", `{{range ints(3, 1)}}x{{end}}`, false, false},
	{"map-odd-args", `{{ map("a") }}`, false, false},
	{"len-of-int", `{{ len(zq_i) }}`, false, false},
	// raised inside jet.Func built-ins for reasons jet detects itself: must be positioned (known finding K3)
	{"exec-unknown-template", `{{ exec("/zq/nosuch.jet") }}`, true, true},
	{"len-wrong-arg-count", `{{ len() }}`, true, true},
	{"isset-wrong-arg-count", `{{ isset() }}`, true, true},
	{"slot-without-pipe-jetfunc", `{{ zq_jf(_) }}`, true, true},
	{"includeIfExists-wrong-arg-count", `{{ includeIfExists() }}`, true, true},
}

// c12runtimeError returns a genuine runtime.Error value (index out of range), recovered.
type c12hidden struct{ Secret string }
type c12outer struct {
	c12hidden
	Pub string
}

func c12runtimeError() (err error) {
	defer func() { err, _ = recover().(error) }()
	var xs []int
	i := 3
	_ = xs[i]
	return nil
}

func c12extra() map[string]interface{} {
	ch := make(chan string, 1)
	ch <- "x"
	close(ch)
	return map[string]interface{}{
		"zq_st": c12struct{A: "a"}, "zq_xs": []string{"x0", "x1", "x2"}, "zq_s": "str", "zq_i": 7, "zq_mi": map[int]string{1: "one"},
		"zq_nilp": (*c12struct)(nil), "zq_ch": ch,
		"zq_many": map[interface{}]string{"a": "x"}, "zq_dyn": struct{ ID interface{} }{[]int{7}},
		"zq_mpair": map[[2]interface{}]string{{"a", 1}: "x"}, "zq_pair": [2]interface{}{"a", map[string]int{"z": 1}},
		"zq_stringer": func(s fmt.Stringer) string { return s.String() },
		"zq_join":     func(sep string, parts ...string) string { return strings.Join(parts, sep) },
		"zq_cat":      func(parts ...string) string { return strings.Join(parts, "") },
		"zq_msi":      map[string]int{"a": 1},
		"zq_arrv": struct {
			Cells [4]int
			Rows  [2][2]string
		}{[4]int{1, 2, 3, 4}, [2][2]string{{"a", "b"}, {"c", "d"}}},
		"zq_emb":   c12outer{c12hidden: c12hidden{Secret: "s"}, Pub: "p"},
		"zq_now":   func() string { return "now" },
		"zq_users": map[string]c12struct{"alice": {A: "a"}},
		"zq_cfg":   map[string]interface{}{"db": map[string]interface{}{"host": "h"}},
		"zq_u":     uint(5), "zq_u8": uint8(9), "zq_f": 2.5,
		"zq_failwrap": func() string { panic(fmt.Errorf("zq_failwrap: lookup failed: %w", c12runtimeError())) },
		"zq_jfwrap": jet.Func(func(a jet.Arguments) reflect.Value {
			a.Panicf("zq_jfwrap: %w", c12runtimeError())
			return reflect.Value{}
		}),
		"zq_fail":  func() string { panic(errors.New("zq_fail reports an error")) },
		"zq_fail1": func(int) string { panic(fmt.Errorf("zq_fail1 reports an error")) },
		"zq_jf": jet.Func(func(a jet.Arguments) reflect.Value {
			a.Get(0)
			a.Panicf("zq_jf reports an error")
			return reflect.Value{}
		}),
	}
}

// lists collects pointers to every statement list of the program (for inserting the failing action).
func c12lists(ns *[]prog.Node, path string, out *[]c12slot) {
	*out = append(*out, c12slot{ns, path})
	for _, n := range *ns {
		switch n := n.(type) {
		case *prog.If:
			if !n.ElseIf {
				c12lists(&n.Then, path+"/if", out)
				if n.HasElse {
					c12lists(&n.Else, path+"/else", out)
				}
			} else {
				c12lists(&n.Then, path+"/if", out)
			}
		case *prog.Range:
			c12lists(&n.Body, path+"/range", out)
			if n.HasElse {
				c12lists(&n.Else, path+"/range-else", out)
			}
		case *prog.BlockDef:
			c12lists(&n.Body, path+"/block", out)
		case *prog.Yield:
			if n.HasContent {
				c12lists(&n.Content, path+"/content", out)
			}
		case *prog.Try:
			c12lists(&n.Body, path+"/try", out)
		}
	}
}

type c12slot struct {
	list *[]prog.Node
	path string
}

func c12n(tier string) int {
	if tier == "thorough" {
		return len(c12classes) * 10000
	}
	return len(c12classes) * 300
}

func c12run(c *fw.Ctx, idx int) {
	cl := c12classes[idx%len(c12classes)]
	r := c.Rand(idx, "c12")
	cfg := prog.Cfg{Items: 3, MaxDepth: 3, Ifs: true, Ranges: true, Vars: true, Blocks: idx%2 == 0, Includes: idx%3 != 0, MultiFile: idx%4 < 2, Ctx: true, CondKinds: true}
	p, feats := prog.Gen(r, cfg)
	p.Newline = true
	// insert the failing action at a random position of a random file
	var slots []c12slot
	for _, f := range p.Files {
		c12lists(&f.Body, f.Path, &slots)
	}
	s := slots[r.Intn(len(slots))]
	at := r.Intn(len(*s.list) + 1)
	fail := &prog.RawFail{Src: cl.Src, Positioned: cl.Positioned}
	nl := append([]prog.Node{}, (*s.list)[:at]...)
	nl = append(nl, fail)
	*s.list = append(nl, (*s.list)[at:]...)
	// layout noise that must not disturb line attribution: multi-line comments and trim markers eating newlines
	if idx%2 == 0 {
		p.Trim = int64(idx) + 1
		for k := 0; k < 3; k++ {
			sl := slots[r.Intn(len(slots))]
			pos := r.Intn(len(*sl.list) + 1)
			cm := &prog.Comment{S: strings.Repeat("\n", 1+r.Intn(3)) + " multi-line comment " + strings.Repeat("\n", r.Intn(3))}
			l2 := append([]prog.Node{}, (*sl.list)[:pos]...)
			l2 = append(l2, cm)
			*sl.list = append(l2, (*sl.list)[pos:]...)
		}
	}
	pad := r.Intn(4)
	if pad > 0 { // move the lines around: leading blank lines in the main file
		mainF := p.File(p.Main)
		mainF.Body = append([]prog.Node{&prog.Text{S: strings.Repeat("\n", pad) + "L;"}}, mainF.Body...)
	}
	c.Begin(idx, map[string]interface{}{"class": cl.Name, "failing_action": cl.Src, "inserted_at": s.path, "files": p.Sources(true), "main": p.Main})
	defer c.End()
	m := prog.Eval(p)
	if m.Unspecified != "" {
		c.Count("discarded_unspecified:"+m.Unspecified, 1)
		return
	}
	o := p.Run(prog.RunOpts{Opts: []jet.Option{jx.NoEscape}, Newline: true, ExtraVars: c12extra()})
	c.Count("executions", 1)
	sig := func(k string) string { return "c12:" + k + ":" + cl.Name }
	if o.Panic != nil {
		c.Violation(sig("panic-escaped"), "", fmt.Sprintf("Execute panicked: %v", o.Panic))
		return
	}
	if class, detail := prog.Compare(m, o, true); class != "" {
		// "output" here means: bytes before the failing action missing, or bytes after it written
		c.Violation(sig(class), "", map[string]interface{}{"detail": detail, "model_error": fmt.Sprint(m.Err), "real_error": fmt.Sprint(o.Err)})
		return
	}
	if m.Err == nil {
		c.Count("failing_action_not_reached", 1)
		return
	}
	if msg := o.Err.Error(); strings.Contains(msg, `identifier "zq_`) && !strings.Contains(cl.Src, "zq_nosuch") && !strings.Contains(cl.Src, "zq_undeclared") {
		// the class is not exercising what it names: a variable it relies on is not supplied by c12extra
		c.Violation("c12:harness:class-variable-missing:"+cl.Name, "", msg)
		return
	}
	c.Count("failures_observed", 1)
	c.Count("class:"+cl.Name, 1)
	if m.Err.Positioned {
		msg := o.Err.Error()
		if !jx.HasPosition(msg, m.Err.File, m.Err.Line) {
			key := ""
			if cl.JetFunc && len(jx.Positions(msg)) == 0 {
				key = "jetfunc-unpositioned"
			}
			c.Violation(sig("wrong-or-missing-position"), key, fmt.Sprintf("failing action is at (%q:%d); message: %s", m.Err.File, m.Err.Line, msg))
			return
		}
		c.Count("positions_verified", 1)
	}
	where := "main"
	if m.Err.File != p.Main {
		where = "other-file"
	}
	if strings.Count(s.path, "/") >= 2 || where == "other-file" {
		c.Distinct(cl.Name + "|" + c12pathShape(s.path) + "|" + where + "|" + fmt.Sprint(m.Err.Line > 1))
	}
	_ = feats
	if idx%499 == 0 {
		c.Sample(map[string]interface{}{"class": cl.Name, "failing_action": cl.Src, "file": m.Err.File, "line": m.Err.Line, "error": o.Err.Error(), "output_before": o.Out})
	}
}

func c12pathShape(p string) string {
	parts := strings.Split(p, "/")
	var out []string
	for _, q := range parts {
		switch q {
		case "if", "else", "range", "range-else", "block", "content", "try":
			out = append(out, q)
		}
	}
	return strings.Join(out, ">")
}

var _ = rand.Int

func init() {
	fw.Register(&fw.Property{
		ID:        "C12",
		Technique: "failure-injection monitor: one failing action of each class planted at a random position of a generated template set; returned error, its (file:line) and the bytes in the writer compared with the reference evaluator",
		Rule: fmt.Sprintf("%d failure classes (unknown identifier/field/method/block/template; index, slice bound, operand, call target, argument, range subject of the wrong kind, count or range; yield argument without value; '_' without piped value; functions reporting errors; errors raised inside built-ins) ", len(c12classes)) +
			"are each inserted at a random position (any statement list: template root, if/else, range/else, block body, yield content; in the executed, an included, an imported or an extended template; random leading blank lines) of a generated program printed one action per line; " +
			"oracle: Execute returns an error and does not panic; for classes jet detects itself the message contains (\"file\":line) of the failing action; the writer holds exactly the model's output up to the failing action; " +
			"non-trivial = the failing action sits at nesting depth >=2 or in a file other than the executed one; distinct by (class, nesting path, file kind, line>1)",
		Assumptions: []string{"the reference evaluator predicts which actions run before the failing one", "every action is written on one line, so 'the action's line' is unambiguous"},
		NCases:      c12n,
		RunCase:     c12run,
		MinDistinct: 300,
	})
}
