package props

import (
	"fmt"
	"reflect"
	"sort"
	"strings"
	"time"

	"github.com/CloudyKit/jet/v6"
	"verifh/internal/fw"
	"verifh/internal/jx"
)

// Directed C05 cases for maps with several entries (iteration order is random, so the rendered
// entries are compared as a multiset) and for if / else-if chains over every truthiness class.

type c05mapCase struct {
	name string
	m    interface{}
	want []string // expected "[k=v]" tokens
}

func c05maps() []c05mapCase {
	var cs []c05mapCase
	for n := 0; n <= 5; n++ {
		ms := map[string]string{}
		mi := map[int]string{}
		mx := map[string]interface{}{}
		var ws, wi, wx []string
		for i := 0; i < n; i++ {
			k, v := fmt.Sprintf("k%d", i), fmt.Sprintf("v%d", i)
			ms[k] = v
			ws = append(ws, "["+k+"="+v+"]")
			mi[i*7] = v
			wi = append(wi, fmt.Sprintf("[%d=%s]", i*7, v))
			if i%2 == 0 {
				mx[k] = i
				wx = append(wx, fmt.Sprintf("[%s=%d]", k, i))
			} else {
				mx[k] = v
				wx = append(wx, "["+k+"="+v+"]")
			}
		}
		cs = append(cs, c05mapCase{fmt.Sprintf("map[string]string/%d", n), ms, ws}, c05mapCase{fmt.Sprintf("map[int]string/%d", n), mi, wi}, c05mapCase{fmt.Sprintf("map[string]interface{}/%d", n), mx, wx})
		pm := ms
		cs = append(cs, c05mapCase{fmt.Sprintf("*map[string]string/%d", n), &pm, ws})
	}
	cs = append(cs, c05mapCase{"nil map", map[string]string(nil), nil})
	return cs
}

var c05mapForms = []struct{ head, body string }{
	{"range k, v := m", "[{{k}}={{v}}]"},
	{"range k := m", "[{{k}}={{.}}]"},
}

var c05nDirected = len(c05maps())*len(c05mapForms) + 1 + c05nRebind

func c05directedCase(c *fw.Ctx, idx int) bool {
	maps := c05maps()
	if idx > len(maps)*len(c05mapForms) {
		c05rebindCase(c, idx)
		return true
	}
	if idx == len(maps)*len(c05mapForms) {
		// zero-variable form: '.' is the value; compared as multiset of values
		c.Begin(idx, map[string]interface{}{"directed": "range over a 4-entry map, zero-variable form"})
		defer c.End()
		vars := jet.VarMap{}
		vars.Set("m", map[string]string{"a": "va", "b": "vb", "c": "vc", "d": "vd"})
		res := jx.Run(map[string]string{"/t.jet": "{{range m}}[{{.}}]{{else}}E{{end}}|{{.}}"}, "/t.jet", vars, "outer", jx.NoEscape)
		got := strings.Split(strings.Trim(strings.TrimSuffix(res.Out, "|outer"), "[]"), "][")
		sort.Strings(got)
		if res.Failed() || strings.Join(got, ",") != "va,vb,vc,vd" || !strings.HasSuffix(res.Out, "|outer") {
			c.Violation("c05:map-entries:zero-var", "", res.String())
		}
		c.Distinct("directed-map-zero-var")
		return true
	}
	mc := maps[idx/len(c05mapForms)]
	f := c05mapForms[idx%len(c05mapForms)]
	tpl := "{{" + f.head + "}}" + f.body + "{{else}}ELSE{{end}}"
	c.Begin(idx, map[string]interface{}{"directed": "map entries", "map": mc.name, "template": tpl})
	defer c.End()
	vars := jet.VarMap{}
	vars.Set("m", mc.m)
	res := jx.Run(map[string]string{"/t.jet": tpl}, "/t.jet", vars, nil, jx.NoEscape)
	c.Count("directed_map_cases", 1)
	if res.Failed() {
		c.Violation("c05:map-entries:error:"+mc.name, "", res.String())
		return true
	}
	if len(mc.want) == 0 {
		if res.Out != "ELSE" {
			c.Violation("c05:map-else:"+mc.name, "", fmt.Sprintf("empty map rendered %q, want the else branch", res.Out))
		}
		c.Distinct("directed-map|" + mc.name + "|" + f.head)
		return true
	}
	got := strings.Split(strings.TrimSuffix(strings.TrimPrefix(res.Out, "["), "]"), "][")
	for i := range got {
		got[i] = "[" + got[i] + "]"
	}
	want := append([]string{}, mc.want...)
	sort.Strings(got)
	sort.Strings(want)
	if strings.Join(got, "") != strings.Join(want, "") {
		c.Violation("c05:map-entries:"+strings.SplitN(mc.name, "/", 2)[0], "", fmt.Sprintf("%s over %s rendered %q; expected exactly the entries %v (any order), no else branch", tpl, mc.name, res.Out, mc.want))
		return true
	}
	c.Distinct("directed-map|" + mc.name + "|" + f.head)
	return true
}

func init() {
	c05.nDirected = c05nDirected
	c05.directed = c05directedCase
}

// ---- the same parsed range statements executed with subjects of changing kind (one Set) ----

type c05structR struct {
	items []string
	i     int
	idx   bool
}

func (r *c05structR) ProvidesIndex() bool { return r.idx }
func (r *c05structR) Range() (k, v reflect.Value, end bool) {
	if r.i >= len(r.items) {
		return reflect.Value{}, reflect.Value{}, true
	}
	if r.idx {
		k = reflect.ValueOf((r.i + 1) * 10)
	}
	v = reflect.ValueOf(r.items[r.i])
	r.i++
	return
}

// custom Rangers whose underlying kinds are slice, chan and map: ranged through Range(), not natively
type c05sliceR []int // cell 0: elements still to come, cell 1: next index

func (c c05sliceR) ProvidesIndex() bool { return true }
func (c c05sliceR) Range() (k, v reflect.Value, end bool) {
	if c[0] <= 0 {
		return reflect.Value{}, reflect.Value{}, true
	}
	k, v = reflect.ValueOf(c[1]), reflect.ValueOf(c[0])
	c[0]--
	c[1]++
	return
}

type c05chanR chan string // yields the non-empty words, upper-cased

func (w c05chanR) ProvidesIndex() bool { return false }
func (w c05chanR) Range() (k, v reflect.Value, end bool) {
	for s := range w {
		if s != "" {
			return reflect.Value{}, reflect.ValueOf(strings.ToUpper(s)), false
		}
	}
	return reflect.Value{}, reflect.Value{}, true
}

type c05mapR map[string]int // yields "M<n>" for n = m["n"] down to 1

func (m c05mapR) ProvidesIndex() bool { return false }
func (m c05mapR) Range() (k, v reflect.Value, end bool) {
	if m["n"] <= 0 {
		return reflect.Value{}, reflect.Value{}, true
	}
	v = reflect.ValueOf(fmt.Sprintf("M%d", m["n"]))
	m["n"]--
	return
}

type c05elem struct{ k, v string }

type c05subject struct {
	name  string
	mk    func() interface{}
	idx   bool
	elems []c05elem
}

func c05chanOf(vals ...string) chan string {
	ch := make(chan string, len(vals))
	for _, v := range vals {
		ch <- v
	}
	close(ch)
	return ch
}

// c05liveChan: a channel that is still open and (mostly) empty when the range starts: a range over a channel waits for
// every element until the channel is closed
func c05liveChan(vals ...string) chan string { return c05liveChanCap(2, vals...) }

func c05liveChanCap(capacity int, vals ...string) chan string {
	ch := make(chan string, capacity)
	go func() {
		for _, v := range vals {
			time.Sleep(300 * time.Microsecond)
			ch <- v
		}
		time.Sleep(300 * time.Microsecond)
		close(ch)
	}()
	return ch
}

var c05subjects = []c05subject{
	{"[]string", func() interface{} { return []string{"a", "b", "c"} }, true, []c05elem{{"0", "a"}, {"1", "b"}, {"2", "c"}}},
	{"[2]int", func() interface{} { return [2]int{7, 8} }, true, []c05elem{{"0", "7"}, {"1", "8"}}},
	{"*[]string", func() interface{} { s := []string{"p"}; return &s }, true, []c05elem{{"0", "p"}}},
	{"map[string]int/1", func() interface{} { return map[string]int{"k": 1} }, true, []c05elem{{"k", "1"}}},
	{"chan string", func() interface{} { return c05chanOf("x", "y") }, false, []c05elem{{"", "x"}, {"", "y"}}},
	{"struct Ranger without index", func() interface{} { return &c05structR{items: []string{"p", "q"}} }, false, []c05elem{{"", "p"}, {"", "q"}}},
	{"struct Ranger with index", func() interface{} { return &c05structR{items: []string{"s", "t"}, idx: true} }, true, []c05elem{{"10", "s"}, {"20", "t"}}},
	{"slice-kinded Ranger", func() interface{} { return c05sliceR{3, 0} }, true, []c05elem{{"0", "3"}, {"1", "2"}, {"2", "1"}}},
	{"chan-kinded Ranger", func() interface{} { return c05chanR(c05chanOf("a", "", "b")) }, false, []c05elem{{"", "A"}, {"", "B"}}},
	{"map-kinded Ranger", func() interface{} { return c05mapR{"n": 2, "other": 5} }, false, []c05elem{{"", "M2"}, {"", "M1"}}},
	{"empty []int", func() interface{} { return []int{} }, true, nil},
	{"nil map", func() interface{} { return map[string]int(nil) }, true, nil},
	{"closed empty chan", func() interface{} { return c05chanOf() }, false, nil},
	{"buffered chan with a slow live producer", func() interface{} { return c05liveChan("x", "y", "z") }, false, []c05elem{{"", "x"}, {"", "y"}, {"", "z"}}},
	{"unbuffered chan with a live producer", func() interface{} { return c05liveChanCap(0, "p", "q") }, false, []c05elem{{"", "p"}, {"", "q"}}},
	{"struct Ranger yielding nothing", func() interface{} { return &c05structR{} }, false, nil},
	{"slice-kinded Ranger yielding nothing", func() interface{} { return c05sliceR{0, 0} }, true, nil},
	{"chan-kinded Ranger yielding nothing", func() interface{} { return c05chanR(c05chanOf("", "")) }, false, nil},
	{"map-kinded Ranger yielding nothing", func() interface{} { return c05mapR{"n": 0, "other": 5} }, false, nil},
}

var c05rebindForms = []string{
	"{{range x}}<{{.}}>{{else}}E{{end}}|{{.}}",
	"{{range v := x}}<{{v}}|{{.}}>{{else}}E{{end}}|{{.}}",
	"{{range i, v := x}}<{{i}}={{v}}|{{.}}>{{else}}E{{end}}|{{.}}",
	"{{range xs}}{{range v := .}}<{{v}}>{{else}}E{{end}};{{end}}|{{.}}",
}

// c05rebindWant is the documented binding of the zero-, one- and two-variable forms ("" = an error is expected).
func c05rebindWant(form int, s c05subject) (string, bool) {
	var b strings.Builder
	if form == 2 && !s.idx {
		return "", false
	}
	if len(s.elems) == 0 {
		b.WriteString("E")
	}
	for _, e := range s.elems {
		switch form {
		case 0:
			b.WriteString("<" + e.v + ">")
		case 1:
			if s.idx {
				b.WriteString("<" + e.k + "|" + e.v + ">")
			} else {
				b.WriteString("<" + e.v + "|outer>")
			}
		case 2:
			if !s.idx {
				return "", false
			}
			b.WriteString("<" + e.k + "=" + e.v + "|outer>")
		}
	}
	return b.String() + "|outer", true
}

const c05nRebind = 120

func c05rebindCase(c *fw.Ctx, idx int) {
	r := c.Rand(idx, "c05rebind")
	files := map[string]string{}
	for i, f := range c05rebindForms {
		files[fmt.Sprintf("/f%d.jet", i)] = f
	}
	set, _ := jx.NewSet(files, jx.NoEscape)
	var hist []string
	c.Begin(idx, map[string]interface{}{"directed": "one Set, the same range statements executed with subjects of changing kind", "templates": files})
	defer c.End()
	n := 5 + r.Intn(8)
	for step := 0; step < n; step++ {
		form := r.Intn(len(c05rebindForms))
		vars := jet.VarMap{}
		var want string
		ok := true
		var desc string
		if form < 3 {
			s := c05subjects[r.Intn(len(c05subjects))]
			vars.Set("x", s.mk())
			want, ok = c05rebindWant(form, s)
			desc = s.name
		} else {
			// nested: the inner one-variable range meets subjects of different kinds within ONE execution
			var xs []interface{}
			var b strings.Builder
			k := 2 + r.Intn(4)
			for j := 0; j < k; j++ {
				s := c05subjects[r.Intn(len(c05subjects))]
				xs = append(xs, s.mk())
				desc += s.name + ","
				if len(s.elems) == 0 {
					b.WriteString("E")
				}
				for _, e := range s.elems {
					if s.idx {
						b.WriteString("<" + e.k + ">")
					} else {
						b.WriteString("<" + e.v + ">")
					}
				}
				b.WriteString(";")
			}
			vars.Set("xs", xs)
			want = b.String() + "|outer"
		}
		hist = append(hist, fmt.Sprintf("f%d over %s", form, desc))
		res := jx.RunSet(set, fmt.Sprintf("/f%d.jet", form), vars, "outer")
		c.Count("rebound_range_executions", 1)
		c.Eval(1)
		switch {
		case !ok && (res.Panic != nil || res.Err == nil):
			c.Journal(map[string]interface{}{"history": hist})
			c.Violation("c05:rebound-subject:two-variable-over-indexless-accepted", "", fmt.Sprintf("step %d (%s): %s", step, hist[len(hist)-1], res))
			return
		case ok && (res.Failed() || res.Out != want):
			c.Journal(map[string]interface{}{"history": hist})
			c.Violation(fmt.Sprintf("c05:rebound-subject:form%d", form), "", fmt.Sprintf("step %d (%s): rendered %s, want %q", step, hist[len(hist)-1], res, want))
			return
		}
	}
	c.Distinct(fmt.Sprintf("rebound|%d", idx))
}
