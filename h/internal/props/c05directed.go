package props

import (
	"fmt"
	"sort"
	"strings"

	"github.com/CloudyKit/jet/v6"
	"verifh/internal/fw"
	"verifh/internal/jx"
)

// Directed C05 cases for maps with several entries (iteration order is random, so the rendered
// entries are compared as a multiset) and for if / else-if chains over every truthiness class.

type c05mapCase struct {
	name string
	m    interface{}
	want []string // expected "[k=v]" tokens
}

func c05maps() []c05mapCase {
	var cs []c05mapCase
	for n := 0; n <= 5; n++ {
		ms := map[string]string{}
		mi := map[int]string{}
		mx := map[string]interface{}{}
		var ws, wi, wx []string
		for i := 0; i < n; i++ {
			k, v := fmt.Sprintf("k%d", i), fmt.Sprintf("v%d", i)
			ms[k] = v
			ws = append(ws, "["+k+"="+v+"]")
			mi[i*7] = v
			wi = append(wi, fmt.Sprintf("[%d=%s]", i*7, v))
			if i%2 == 0 {
				mx[k] = i
				wx = append(wx, fmt.Sprintf("[%s=%d]", k, i))
			} else {
				mx[k] = v
				wx = append(wx, "["+k+"="+v+"]")
			}
		}
		cs = append(cs, c05mapCase{fmt.Sprintf("map[string]string/%d", n), ms, ws}, c05mapCase{fmt.Sprintf("map[int]string/%d", n), mi, wi}, c05mapCase{fmt.Sprintf("map[string]interface{}/%d", n), mx, wx})
		pm := ms
		cs = append(cs, c05mapCase{fmt.Sprintf("*map[string]string/%d", n), &pm, ws})
	}
	cs = append(cs, c05mapCase{"nil map", map[string]string(nil), nil})
	return cs
}

var c05mapForms = []struct{ head, body string }{
	{"range k, v := m", "[{{k}}={{v}}]"},
	{"range k := m", "[{{k}}={{.}}]"},
}

var c05nDirected = len(c05maps())*len(c05mapForms) + 1

func c05directedCase(c *fw.Ctx, idx int) bool {
	maps := c05maps()
	if idx == len(maps)*len(c05mapForms) {
		// zero-variable form: '.' is the value; compared as multiset of values
		c.Begin(idx, map[string]interface{}{"directed": "range over a 4-entry map, zero-variable form"})
		defer c.End()
		vars := jet.VarMap{}
		vars.Set("m", map[string]string{"a": "va", "b": "vb", "c": "vc", "d": "vd"})
		res := jx.Run(map[string]string{"/t.jet": "{{range m}}[{{.}}]{{else}}E{{end}}|{{.}}"}, "/t.jet", vars, "outer", jx.NoEscape)
		got := strings.Split(strings.Trim(strings.TrimSuffix(res.Out, "|outer"), "[]"), "][")
		sort.Strings(got)
		if res.Failed() || strings.Join(got, ",") != "va,vb,vc,vd" || !strings.HasSuffix(res.Out, "|outer") {
			c.Violation("c05:map-entries:zero-var", "", res.String())
		}
		c.Distinct("directed-map-zero-var")
		return true
	}
	mc := maps[idx/len(c05mapForms)]
	f := c05mapForms[idx%len(c05mapForms)]
	tpl := "{{" + f.head + "}}" + f.body + "{{else}}ELSE{{end}}"
	c.Begin(idx, map[string]interface{}{"directed": "map entries", "map": mc.name, "template": tpl})
	defer c.End()
	vars := jet.VarMap{}
	vars.Set("m", mc.m)
	res := jx.Run(map[string]string{"/t.jet": tpl}, "/t.jet", vars, nil, jx.NoEscape)
	c.Count("directed_map_cases", 1)
	if res.Failed() {
		c.Violation("c05:map-entries:error:"+mc.name, "", res.String())
		return true
	}
	if len(mc.want) == 0 {
		if res.Out != "ELSE" {
			c.Violation("c05:map-else:"+mc.name, "", fmt.Sprintf("empty map rendered %q, want the else branch", res.Out))
		}
		c.Distinct("directed-map|" + mc.name + "|" + f.head)
		return true
	}
	got := strings.Split(strings.TrimSuffix(strings.TrimPrefix(res.Out, "["), "]"), "][")
	for i := range got {
		got[i] = "[" + got[i] + "]"
	}
	want := append([]string{}, mc.want...)
	sort.Strings(got)
	sort.Strings(want)
	if strings.Join(got, "") != strings.Join(want, "") {
		c.Violation("c05:map-entries:"+strings.SplitN(mc.name, "/", 2)[0], "", fmt.Sprintf("%s over %s rendered %q; expected exactly the entries %v (any order), no else branch", tpl, mc.name, res.Out, mc.want))
		return true
	}
	c.Distinct("directed-map|" + mc.name + "|" + f.head)
	return true
}

func init() {
	c05.nDirected = c05nDirected
	c05.directed = c05directedCase
}
