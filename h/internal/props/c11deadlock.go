package props

import (
	"regexp"
	"runtime"
	"strings"
)

// c11blocked inspects one stop-the-world snapshot of all goroutine stacks. It returns a description when every
// unfinished workload goroutine of the round (the goroutines started by c11run) is parked on a sync primitive
// taken inside jet itself (a lock of the Set, the loader, the struct-field cache): nobody that could release those
// locks can run, so none of these calls will ever return. The verdict is the state of the snapshot, not the time
// that has passed: a goroutine that is merely slow shows up as running, runnable, sleeping or in a system call and
// makes the function return "".
func c11blocked() (desc string, n int) {
	buf := make([]byte, 8<<20)
	buf = buf[:runtime.Stack(buf, true)]
	var first string
	for _, g := range strings.Split(string(buf), "\n\n") {
		if i := strings.Index(g, "\ncreated by "); i >= 0 {
			g = g[:i] // who started a goroutine says nothing about what it runs
		}
		if !strings.Contains(g, "props.c11run.func") || strings.Contains(g, "props.c11blocked(") {
			continue // not of the workload, or the goroutine taking this snapshot
		}
		m := c11stateRe.FindStringSubmatch(g)
		if m == nil {
			return "", 0
		}
		state := m[1]
		if !(strings.HasPrefix(state, "sync.") || strings.HasPrefix(state, "semacquire")) {
			return "", 0
		}
		// the innermost non-runtime, non-sync frame must be jet's
		inJet := false
		for _, line := range strings.Split(g, "\n")[1:] {
			if strings.HasPrefix(line, "\t") || strings.HasPrefix(line, "created by") {
				continue
			}
			if strings.HasPrefix(line, "sync.") || strings.HasPrefix(line, "runtime.") || strings.HasPrefix(line, "internal/") {
				continue
			}
			inJet = strings.HasPrefix(line, "github.com/CloudyKit/jet/v6.")
			break
		}
		if !inJet {
			return "", 0
		}
		n++
		if first == "" {
			first = g
			if len(first) > 1500 {
				first = first[:1500]
			}
		}
	}
	if n == 0 {
		return "", 0
	}
	return first, n
}

var c11stateRe = regexp.MustCompile(`^goroutine \d+ \[([^,\]]+)`)
