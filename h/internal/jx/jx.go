// Package jx holds small helpers to drive jet from the checks.
package jx

import (
	"bytes"
	"fmt"
	"io"
	"regexp"
	"sort"
	"strconv"

	"github.com/CloudyKit/jet/v6"
)

// Res is the observable outcome of parsing+executing a template.
type Res struct {
	Out      string
	Err      error       // error returned by Execute
	ParseErr error       // error returned by GetTemplate/Parse
	Panic    interface{} // panic that escaped into the caller
}

func (r Res) Failed() bool { return r.Err != nil || r.ParseErr != nil || r.Panic != nil }

func (r Res) String() string {
	s := fmt.Sprintf("out=%q", r.Out)
	if r.ParseErr != nil {
		s += fmt.Sprintf(" parseErr=%q", r.ParseErr.Error())
	}
	if r.Err != nil {
		s += fmt.Sprintf(" err=%q", r.Err.Error())
	}
	if r.Panic != nil {
		s += fmt.Sprintf(" PANIC=%v", r.Panic)
	}
	return s
}

// ErrStr returns the error text ("" if none), "PANIC: .." for panics.
func (r Res) ErrStr() string {
	switch {
	case r.Panic != nil:
		return fmt.Sprintf("PANIC: %v", r.Panic)
	case r.ParseErr != nil:
		return "PARSE: " + r.ParseErr.Error()
	case r.Err != nil:
		return r.Err.Error()
	}
	return ""
}

// NewSet builds a Set over an in-memory loader holding files. Escaping is left as configured by opts
// (default HTML escaper unless an option overrides it).
func NewSet(files map[string]string, opts ...jet.Option) (*jet.Set, *jet.InMemLoader) {
	l := jet.NewInMemLoader()
	keys := make([]string, 0, len(files))
	for k := range files {
		keys = append(keys, k)
	}
	sort.Strings(keys)
	for _, k := range keys {
		l.Set(k, files[k])
	}
	return jet.NewSet(l, opts...), l
}

// NoEscape disables the Set's escaper.
var NoEscape = jet.WithSafeWriter(nil)

// Get wraps GetTemplate with panic capture.
func Get(s *jet.Set, name string) (t *jet.Template, err error, pan interface{}) {
	defer func() {
		if p := recover(); p != nil {
			pan = p
		}
	}()
	t, err = s.GetTemplate(name)
	return
}

// Parse wraps Set.Parse with panic capture.
func Parse(s *jet.Set, name, src string) (t *jet.Template, err error, pan interface{}) {
	defer func() {
		if p := recover(); p != nil {
			pan = p
		}
	}()
	t, err = s.Parse(name, src)
	return
}

// Exec executes t into a buffer with panic capture.
func Exec(t *jet.Template, vars jet.VarMap, data interface{}) (r Res) {
	var b bytes.Buffer
	r = ExecW(t, &b, vars, data)
	r.Out = b.String()
	return
}

func ExecW(t *jet.Template, w io.Writer, vars jet.VarMap, data interface{}) (r Res) {
	defer func() {
		if p := recover(); p != nil {
			r.Panic = p
		}
	}()
	r.Err = t.Execute(w, vars, data)
	return
}

// Run = NewSet + GetTemplate + Execute.
func Run(files map[string]string, name string, vars jet.VarMap, data interface{}, opts ...jet.Option) Res {
	s, _ := NewSet(files, opts...)
	return RunSet(s, name, vars, data)
}

func RunSet(s *jet.Set, name string, vars jet.VarMap, data interface{}) Res {
	t, err, pan := Get(s, name)
	if pan != nil {
		return Res{Panic: pan}
	}
	if err != nil {
		return Res{ParseErr: err}
	}
	return Exec(t, vars, data)
}

// CopyVars returns a fresh VarMap with the same entries (templates may write into the map they get).
func CopyVars(v jet.VarMap) jet.VarMap {
	if v == nil {
		return nil
	}
	c := make(jet.VarMap, len(v))
	for k, x := range v {
		c[k] = x
	}
	return c
}

var posRe = regexp.MustCompile(`\("([^"]*)":(\d+)\)`)

// Positions extracts every ("file":line) pair of a runtime error message.
func Positions(msg string) (res [][2]string) {
	for _, m := range posRe.FindAllStringSubmatch(msg, -1) {
		res = append(res, [2]string{m[1], m[2]})
	}
	return
}

// HasPosition reports whether msg names file and line.
func HasPosition(msg, file string, line int) bool {
	for _, p := range Positions(msg) {
		if p[0] == file && p[1] == strconv.Itoa(line) {
			return true
		}
	}
	return false
}
