//go:build !verif

package hook

import (
	"runtime"

	"github.com/CloudyKit/jet/v6"
)

const Available = false

type State struct {
	ScopeDepth int
	Scope      uintptr
	Context    string
	Content    uintptr
	Writer     string
}

func Probe(r *jet.Runtime) State { return State{} }

// Drain falls back to two GC cycles, which empty sync.Pool's primary and victim caches.
func Drain() { runtime.GC(); runtime.GC() }
