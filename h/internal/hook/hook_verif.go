//go:build verif

// Package hook wraps the verif-tagged observation hooks of /repo.
package hook

import (
	"github.com/CloudyKit/jet/v6"
	"verifh/internal/fw"
)

func init() { fw.HooksAvailable = true }

const Available = true

type State = jet.VerifState

func Probe(r *jet.Runtime) State { return jet.VerifProbe(r) }

func Drain() { jet.VerifDrainPools() }
