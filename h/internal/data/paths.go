package data

import (
	"fmt"
	"math/rand"
	"reflect"
	"sort"
)

func exportedFieldNames(t reflect.Type) []string {
	var names []string
	seen := map[string]bool{}
	for _, f := range reflect.VisibleFields(t) {
		if f.PkgPath != "" || seen[f.Name] {
			continue
		}
		if g, ok := t.FieldByName(f.Name); ok && reflect.DeepEqual(g.Index, f.Index) {
			names = append(names, f.Name)
			seen[f.Name] = true
		}
	}
	return names
}

// GenPath random-walks the data from root and returns a path every step of which is valid.
func GenPath(r *rand.Rand, root reflect.Value, maxDepth int) Path {
	var p Path
	v := root
	for d := 0; d < maxDepth; d++ {
		base, isNil := deref(v)
		if isNil || !base.IsValid() {
			break
		}
		var s Step
		// named non-struct types carrying methods (pointer-receiver ones need an addressable value or a pointer)
		if tn := base.Type().Name(); (tn == "Counter" || tn == "TagList" || tn == "Dict") && r.Intn(2) == 0 {
			ptrOK := v.Kind() == reflect.Ptr || base.CanAddr()
			switch tn {
			case "Counter":
				s = Step{Kind: SCall, Name: "Plus", Args: []interface{}{r.Intn(5)}}
				if ptrOK && r.Intn(2) == 0 {
					s = Step{Kind: SCall, Name: "Double"}
				}
			case "TagList":
				s = Step{Kind: SCall, Name: "First"}
				if ptrOK && r.Intn(2) == 0 {
					s = Step{Kind: SCall, Name: "Count"}
				}
			case "Dict":
				s = Step{Kind: SCall, Name: "Has", Args: []interface{}{[]string{"dk", "zz"}[r.Intn(2)]}}
				if ptrOK && r.Intn(2) == 0 {
					s = Step{Kind: SCall, Name: "Size"}
				}
			}
			s.Bracket = r.Intn(4) == 0
			p.Steps = append(p.Steps, s)
			return p
		}
		switch base.Kind() {
		case reflect.Struct:
			names := exportedFieldNames(base.Type())
			// methods
			if base.Type().Name() == "Meth" && r.Intn(2) == 0 {
				switch r.Intn(4) {
				case 0:
					s = Step{Kind: SCall, Name: "Val"}
				case 1:
					s = Step{Kind: SCall, Name: "Arg", Args: []interface{}{r.Intn(5)}}
				case 2:
					s = Step{Kind: SCall, Name: "Two", Args: []interface{}{"w", r.Intn(5)}}
				case 3:
					if v.Kind() == reflect.Ptr {
						s = Step{Kind: SCall, Name: "Ptr"}
					} else {
						s = Step{Kind: SCall, Name: "Val"}
					}
				}
				s.Bracket = r.Intn(4) == 0
				break
			}
			if (base.Type().Name() == "Box" || base.Type().Name() == "PBox") && r.Intn(3) == 0 {
				// Box has a value-receiver Label(), *PBox a pointer-receiver one (always reached through a pointer here)
				s = Step{Kind: SCall, Name: "Label", Bracket: r.Intn(4) == 0}
				break
			}
			if len(names) == 0 {
				return p
			}
			s = Step{Kind: SField, Name: names[r.Intn(len(names))], Bracket: r.Intn(3) == 0}
		case reflect.Map:
			keys := base.MapKeys()
			if len(keys) == 0 {
				return p
			}
			sort.Slice(keys, func(i, j int) bool { return keyLess(keys[i], keys[j]) })
			k := keys[r.Intn(len(keys))]
			if k.Kind() == reflect.Array {
				return p
			}
			if k.Kind() == reflect.Interface {
				k = k.Elem()
				switch k.Kind() {
				case reflect.String:
					s = Step{Kind: SIndex, Index: k.String()}
				case reflect.Float64:
					s = Step{Kind: SIndex, Index: int(k.Float())}
				default:
					return p
				}
				break
			}
			switch k.Kind() {
			case reflect.String:
				if k.Type().Name() == "Key" {
					if r.Intn(2) == 0 {
						s = Step{Kind: SIndex, Index: VarRef("knamed")}
					} else {
						s = Step{Kind: SIndex, Index: k.String()}
					}
				} else {
					s = Step{Kind: SField, Name: k.String(), Bracket: r.Intn(2) == 0 || k.String() == ""}
					if r.Intn(6) == 0 && k.String() == "k1" {
						s = Step{Kind: SIndex, Index: VarRef("kk1")}
					}
					if r.Intn(2) == 0 && k.String() == "" {
						s = Step{Kind: SIndex, Index: VarRef("kempty")}
					}
				}
			default:
				s = Step{Kind: SIndex, Index: int(k.Int())}
			}
		case reflect.Slice, reflect.Array, reflect.String:
			n := base.Len()
			if n == 0 {
				return p
			}
			if r.Intn(5) == 0 && base.Kind() != reflect.Array {
				lo, hi := r.Intn(n+1), 0
				hi = lo + r.Intn(n-lo+1)
				s = Step{Kind: SSlice, Lo: lo, Hi: hi, HasLo: r.Intn(3) != 0, HasHi: r.Intn(3) != 0}
				if !s.HasLo {
					s.Lo = 0
				}
				if !s.HasHi {
					s.Hi = n
				}
				if s.HasLo && s.Lo > s.Hi {
					s.Lo = s.Hi
				}
			} else {
				i := r.Intn(n)
				s = Step{Kind: SIndex, Index: i}
				if i <= 3 && r.Intn(3) == 0 {
					s.Index = VarRef([]string{"ix0", "ix1", "ix2", "ix3"}[i])
				}
				if i == 1 && r.Intn(8) == 0 {
					s.Index = VarRef([]string{"i64one", "u8one"}[r.Intn(2)])
				}
			}
		default:
			return p
		}
		p.Steps = append(p.Steps, s)
		res := Resolve(root, p)
		if res.Out != OValue || s.Kind == SSlice {
			// jet's grammar does not allow indexing or calling the result of a slice expression: a slice ends the path
			return p
		}
		v = res.V
		if _, scalar := Printed(v); scalar && base.Kind() != reflect.String {
			if r.Intn(6) != 0 {
				return p
			}
		}
	}
	return p
}

func keyLess(a, b reflect.Value) bool {
	switch a.Kind() {
	case reflect.String:
		return a.String() < b.String()
	case reflect.Int:
		return a.Int() < b.Int()
	}
	return fmt.Sprint(a.Interface()) < fmt.Sprint(b.Interface())
}

// Corrupt makes one step of a valid path invalid (or turns it into an access that must yield nil).
func Corrupt(r *rand.Rand, root reflect.Value, p Path) (Path, string) {
	if len(p.Steps) == 0 {
		return p, ""
	}
	at := r.Intn(len(p.Steps))
	q := Path{Steps: append([]Step{}, p.Steps...)}
	prefix := Path{Steps: q.Steps[:at]}
	pre := Resolve(root, prefix)
	if pre.Out != OValue {
		return p, ""
	}
	base, isNil := deref(pre.V)
	if isNil {
		return p, ""
	}
	s := q.Steps[at]
	how := ""
	switch base.Kind() {
	case reflect.Struct:
		switch r.Intn(4) {
		case 0:
			s = Step{Kind: SField, Name: "Nope", Bracket: r.Intn(2) == 0}
			how = "missing-field"
		case 1:
			s = Step{Kind: SIndex, Index: 0}
			how = "int-index-on-struct"
		case 2:
			s = Step{Kind: SCall, Name: "NoMethod"}
			how = "missing-method"
		case 3:
			if base.Type().Name() == "WithUnexported" {
				s = Step{Kind: SField, Name: "priv", Bracket: r.Intn(2) == 0}
				how = "unexported-field"
				if r.Intn(2) == 0 {
					// the embedded struct of unexported type, named itself (usually followed by one of its exported fields)
					q.Steps = append(q.Steps[:at:at], Step{Kind: SField, Name: "hidden", Bracket: r.Intn(3) == 0}, Step{Kind: SField, Name: "Secret", Bracket: r.Intn(3) == 0})
					return q, "unexported-embedded-field"
				}
			} else {
				s = Step{Kind: SField, Name: "nope", Bracket: r.Intn(2) == 0}
				how = "missing-field"
			}
		}
	case reflect.Map:
		switch r.Intn(3) {
		case 0:
			if base.Type().Key().Kind() == reflect.String {
				s = Step{Kind: SField, Name: "absent", Bracket: true}
				switch k := r.Intn(3); {
				case k == 0:
					s = Step{Kind: SIndex, Index: VarRef("kabsent")}
				case k == 1 && at < len(q.Steps)-1:
					s = Step{Kind: SField, Name: "absent"} // dot form, only with a further access below it
				}
			} else {
				s = Step{Kind: SIndex, Index: 77}
			}
			how = "absent-key"
		case 1:
			if base.Type().Key().Kind() == reflect.String {
				s = Step{Kind: SIndex, Index: 3}
			} else {
				s = Step{Kind: SIndex, Index: "x"}
			}
			how = "key-of-wrong-kind"
		case 2:
			s = Step{Kind: SSlice, Lo: 0, Hi: 1, HasLo: true, HasHi: true}
			how = "slice-of-map"
		}
	case reflect.Slice, reflect.Array, reflect.String:
		n := base.Len()
		switch r.Intn(6) {
		case 0:
			s = Step{Kind: SIndex, Index: n}
			how = "index-len"
		case 1:
			s = Step{Kind: SIndex, Index: VarRef("ixm1")}
			how = "index-negative"
		case 2:
			s = Step{Kind: SIndex, Index: "x"}
			how = "string-index-on-sequence"
		case 3:
			if base.Kind() == reflect.Array {
				s = Step{Kind: SIndex, Index: VarRef("ix9")}
				how = "index-far"
			} else {
				s = Step{Kind: SSlice, Lo: 0, Hi: n + 1, HasLo: r.Intn(2) == 0, HasHi: true}
				how = "slice-end-past-len"
			}
		case 4:
			if base.Kind() == reflect.Array {
				s = Step{Kind: SField, Name: "Nope"}
				how = "field-on-sequence"
			} else {
				s = Step{Kind: SSlice, Lo: n, Hi: n - 1, HasLo: true, HasHi: true}
				if n == 0 {
					s = Step{Kind: SSlice, Lo: 1, Hi: 0, HasLo: true}
				}
				how = "slice-inverted"
			}
		case 5:
			s = Step{Kind: SField, Name: "Nope"}
			how = "field-on-sequence"
		}
	default:
		// scalar: any further access fails
		s = Step{Kind: SField, Name: "Nope"}
		how = "field-on-scalar"
		if r.Intn(2) == 0 {
			s = Step{Kind: SIndex, Index: 0}
			how = "index-on-scalar"
			if base.Kind() == reflect.String {
				s = Step{Kind: SIndex, Index: base.Len()}
				how = "index-len"
			}
		}
	}
	q.Steps[at] = s
	if s.Kind == SSlice {
		q.Steps = q.Steps[:at+1]
		return q, how
	}
	if how != "absent-key" || at != len(q.Steps)-1 {
		// after an invalid step the rest of the path is irrelevant; keep a short tail to vary the shape
		if at+2 < len(q.Steps) {
			q.Steps = q.Steps[:at+2]
		}
	} else {
		q.Steps = q.Steps[:at+1]
	}
	return q, how
}

// NilPaths are accesses through values that are nil in every generated graph.
var NilPaths = []Path{
	{Steps: []Step{{Kind: SField, Name: "NilIn"}, {Kind: SField, Name: "Name"}}},
	{Steps: []Step{{Kind: SField, Name: "PNil"}, {Kind: SField, Name: "X"}}},
	{Steps: []Step{{Kind: SField, Name: "NilMap"}, {Kind: SField, Name: "k", Bracket: true}}},
	{Steps: []Step{{Kind: SField, Name: "NilSl"}, {Kind: SIndex, Index: 0}}},
	{Steps: []Step{{Kind: SField, Name: "IfaceNil"}, {Kind: SField, Name: "Name"}}},
	{Steps: []Step{{Kind: SField, Name: "Ptrs"}, {Kind: SIndex, Index: 1}, {Kind: SField, Name: "Name"}}},
	{Steps: []Step{{Kind: SField, Name: "MapSP"}, {Kind: SField, Name: "nilp"}, {Kind: SField, Name: "Name"}}},
	{Steps: []Step{{Kind: SField, Name: "Nested"}, {Kind: SField, Name: "null", Bracket: true}, {Kind: SField, Name: "x"}}},
	{Steps: []Step{{Kind: SField, Name: "ShapeNil"}, {Kind: SField, Name: "Name"}}},
	{Steps: []Step{{Kind: SField, Name: "ShapeNil"}}},
	{Steps: []Step{{Kind: SField, Name: "Err"}}},
	{Steps: []Step{{Kind: SField, Name: "NilIn"}}},
	{Steps: []Step{{Kind: SField, Name: "NilMap"}}},
	{Steps: []Step{{Kind: SField, Name: "NilSl"}}},
	{Steps: []Step{{Kind: SField, Name: "IfaceNil"}}},
	{Steps: []Step{{Kind: SField, Name: "MapSP"}, {Kind: SField, Name: "nilp", Bracket: true}}},
	{Steps: []Step{{Kind: SField, Name: "Nested"}, {Kind: SField, Name: "m"}, {Kind: SField, Name: "null", Bracket: true}}},
	{Steps: []Step{{Kind: SField, Name: "Ifaces"}, {Kind: SIndex, Index: 3}}},
	{Steps: []Step{{Kind: SField, Name: "Ptrs"}, {Kind: SIndex, Index: 1}}},
}
