// Package data holds a library of Go types, a generator of data graphs with unique leaf tokens,
// a generator of access paths (valid and invalid at every depth) and a reference resolver that
// follows Go's own rules with plain reflect.
package data

import (
	"fmt"
	"math/rand"
	"reflect"
	"strings"
)

type Key string

type Deep struct{ First, Second, Third string }

type Inner struct {
	Name  string
	Other string
	Num   int
	Zero  int
	Empty string
	Deep  Deep
}

// three levels of embedding by value
type L3 struct{ First, Second, Third string }
type L2 struct {
	L3
	Mid string
}
type L1 struct {
	L2
	Top string
}
type L0 struct {
	L1
	Root0 string
}

// outer field shadowing a promoted one, declared before / after the embedded struct
type OuterBefore struct {
	Name string
	Inner
}
type OuterAfter struct {
	Inner
	Name string
}

type PInner struct {
	X    string
	Y    int
	Next *PInner // nil: a promoted field of pointer type holding nil is a value (nil), not a dereference
}
type POuter struct {
	*PInner
	Z string
}

// an embedded struct of an unexported type: its exported fields are promoted (W.Secret is fine, as in Go), the embedded
// field itself is unexported (W.hidden, W.hidden.Secret are not)
type hidden struct{ Secret string }

type WithUnexported struct {
	Pub  string
	priv string
	hidden
}

// exported names are those starting with an upper-case letter of any script
type UniInner struct{ Ölstand string }
type Unicode struct {
	Ärger string
	Émile int
	Ωmega string
	*UniInner
}

type Meth struct{ V string }

func (m Meth) Val() string                { return "val:" + m.V }
func (m *Meth) Ptr() string               { return "ptr:" + m.V }
func (m Meth) Arg(i int) string           { return fmt.Sprintf("arg%d:%s", i, m.V) }
func (m Meth) Two(a string, b int) string { return fmt.Sprintf("two:%s:%d:%s", a, b, m.V) }

// non-empty interface types in between
type Shaper interface{ Label() string }

type Box struct {
	W, H int
	Name string
	Tags []string
}

func (b Box) Label() string { return "box:" + b.Name }

type PBox struct{ ID string }

func (p *PBox) Label() string { return "pbox:" + p.ID }

// named non-struct types with value- and pointer-receiver methods
type Counter int

func (c Counter) Plus(n int) int { return int(c) + n }
func (c *Counter) Double() int   { return int(*c) * 2 }

type TagList []string

func (t TagList) First() string { return t[0] }
func (t *TagList) Count() int   { return len(*t) }

type Dict map[string]string

func (d Dict) Has(k string) bool { _, ok := d[k]; return ok }
func (d *Dict) Size() int        { return len(*d) }

// a name promoted through two embedded siblings at different depths: Go's selector picks the shallowest
type Stamp struct {
	ID  string
	Seq int
}
type Audit struct {
	Stamp
	By string
}
type Meta struct {
	ID  string
	Rev int
}
type DocDeepFirst struct { // ID is Meta.ID (depth 1), not Audit.Stamp.ID (depth 2)
	Audit
	Meta
	Title string
}
type DocShallowFirst struct {
	Meta
	Audit
	Title string
}

// the same name promoted through an embedded pointer (shallower) and through two structs embedded by value (deeper)
type PA struct{ PX string }
type VC struct {
	PX string
	VY string
}
type VB struct{ VC }
type PtrVsVal struct {
	*PA
	VB
}

type Root struct {
	PV    PtrVsVal
	Hits  Counter
	PHits *Counter
	Tags  TagList
	Dict  Dict
	DocD  DocDeepFirst
	DocS  DocShallowFirst

	S string
	I int
	B bool
	Z int    // zero
	E string // empty

	In    Inner
	PIn   *Inner
	NilIn *Inner
	PP    **Inner

	OB OuterBefore
	OA OuterAfter
	L  L0

	P    POuter
	PNil POuter

	W  WithUnexported
	M  Meth
	PM *Meth

	MapSS     map[string]string
	MapSI     map[string]int
	MapIS     map[int]string
	MapNamed  map[Key]string
	MapSP     map[string]*Inner // one entry holds a nil pointer
	NilMap    map[string]string
	Nested    map[string]interface{}
	MapAny    map[interface{}]string
	MapAnyAny map[interface{}]interface{} // interface keys, interface elements (some hold typed nils)
	MapArrAny map[[2]string]interface{}
	MapPair   map[[2]interface{}]string

	Shape    Shaper // holds a Box value
	ShapeP   Shaper // holds a *PBox
	ShapeNil Shaper
	ShapeMap map[string]Shaper
	Shapes   []Shaper
	Err      error // nil error interface

	Strs    []string
	Ints    []int
	Ifaces  []interface{}
	Structs []Inner
	Ptrs    []*Inner
	Arr     [3]string
	NilSl   []string
	PSl     *[]string
	PPSl    **[]string // slicing and indexing reach through any number of pointers
	PPStr   **string
	Cap     []string // len 2, cap 4

	Str string

	Uni  Unicode
	PUni *Unicode

	Iface    interface{} // holds an Inner
	IfacePtr interface{} // holds a *Inner
	IfaceNil interface{}
	IfaceMap interface{} // holds map[string]string
}

// Gen builds a graph with unique leaf tokens.
type Gen struct {
	R *rand.Rand
	n int
}

func (g *Gen) Tok() string { g.n++; return fmt.Sprintf("t%dx", g.n) }

func (g *Gen) inner() Inner {
	return Inner{Name: g.Tok(), Other: g.Tok(), Num: 100 + g.n, Deep: Deep{g.Tok(), g.Tok(), g.Tok()}}
}

func (g *Gen) Root() *Root {
	r := &Root{S: g.Tok(), I: 41 + g.R.Intn(9), B: true}
	r.PV = PtrVsVal{PA: &PA{PX: g.Tok()}, VB: VB{VC{PX: g.Tok(), VY: g.Tok()}}}
	r.Hits = Counter(20 + g.R.Intn(30))
	ph := Counter(70 + g.R.Intn(20))
	r.PHits = &ph
	r.Tags = TagList{g.Tok(), g.Tok()}
	r.Dict = Dict{"dk": g.Tok()}
	r.DocD = DocDeepFirst{Audit: Audit{Stamp: Stamp{ID: g.Tok(), Seq: 3}, By: g.Tok()}, Meta: Meta{ID: g.Tok(), Rev: 4}, Title: g.Tok()}
	r.DocS = DocShallowFirst{Meta: Meta{ID: g.Tok(), Rev: 5}, Audit: Audit{Stamp: Stamp{ID: g.Tok(), Seq: 6}, By: g.Tok()}, Title: g.Tok()}
	r.Uni = Unicode{Ärger: g.Tok(), Émile: 61, Ωmega: g.Tok(), UniInner: &UniInner{Ölstand: g.Tok()}}
	r.PUni = &Unicode{Ärger: g.Tok(), Émile: 62, Ωmega: g.Tok(), UniInner: &UniInner{Ölstand: g.Tok()}}
	r.In = g.inner()
	pin := g.inner()
	r.PIn = &pin
	pp := g.inner()
	ppp := &pp
	r.PP = &ppp
	r.OB = OuterBefore{Name: g.Tok(), Inner: g.inner()}
	r.OA = OuterAfter{Name: g.Tok(), Inner: g.inner()}
	r.L = L0{L1: L1{L2: L2{L3: L3{g.Tok(), g.Tok(), g.Tok()}, Mid: g.Tok()}, Top: g.Tok()}, Root0: g.Tok()}
	r.P = POuter{PInner: &PInner{X: g.Tok(), Y: 7}, Z: g.Tok()}
	r.PNil = POuter{Z: g.Tok()}
	r.W = WithUnexported{Pub: g.Tok(), priv: g.Tok(), hidden: hidden{Secret: g.Tok()}}
	r.M = Meth{g.Tok()}
	r.PM = &Meth{g.Tok()}
	r.MapSS = map[string]string{"k1": g.Tok(), "k2": g.Tok(), "empty": "", "": g.Tok()} // (the empty string is a key like any other)
	r.MapSI = map[string]int{"a": 1 + g.R.Intn(50), "zero": 0}
	r.MapIS = map[int]string{1: g.Tok(), 2: g.Tok(), 0: g.Tok()}
	r.MapNamed = map[Key]string{"nk": g.Tok()}
	mp := g.inner()
	r.MapSP = map[string]*Inner{"p": &mp, "nilp": nil}
	nin := g.inner()
	r.Nested = map[string]interface{}{
		"in":   nin,
		"list": []interface{}{g.Tok(), 5, map[string]interface{}{"k": g.Tok()}, nil},
		"m":    map[string]interface{}{"k": g.Tok(), "null": nil, "sub": map[string]string{"x": g.Tok()}},
		"null": nil,
		"s":    g.Tok(),
	}
	r.MapAnyAny = map[interface{}]interface{}{"nilp": (*Inner)(nil), "nilm": map[string]int(nil), "nils": []string(nil), "nil": nil, "v": g.Tok(), "zero": 0}
	r.MapArrAny = map[[2]string]interface{}{{"a", "b"}: (*Inner)(nil), {"c", "d"}: g.Tok()}
	r.MapAny = map[interface{}]string{"a": g.Tok(), 1.0: g.Tok(), true: g.Tok()}
	r.MapPair = map[[2]interface{}]string{{"a", 1}: g.Tok()}
	r.Shape = Box{W: 3, H: 4, Name: g.Tok(), Tags: []string{g.Tok(), g.Tok()}}
	r.ShapeP = &PBox{ID: g.Tok()}
	r.ShapeMap = map[string]Shaper{"b": Box{W: 5, H: 6, Name: g.Tok(), Tags: []string{g.Tok()}}, "p": &PBox{ID: g.Tok()}}
	r.Shapes = []Shaper{Box{W: 7, H: 8, Name: g.Tok()}, &PBox{ID: g.Tok()}}
	r.Strs = []string{g.Tok(), g.Tok(), g.Tok()}
	r.Ints = []int{10, 0, 30}
	r.Ifaces = []interface{}{g.Tok(), 0, "", nil, g.inner()}
	r.Structs = []Inner{g.inner(), g.inner()}
	sp := g.inner()
	r.Ptrs = []*Inner{&sp, nil}
	r.Arr = [3]string{g.Tok(), g.Tok(), g.Tok()}
	ps := []string{g.Tok(), g.Tok()}
	r.PSl = &ps
	pps := []string{g.Tok(), g.Tok()}
	ppsp := &pps
	r.PPSl = &ppsp
	pstr := "xyz"
	pstrp := &pstr
	r.PPStr = &pstrp
	backing := []string{g.Tok(), g.Tok(), "HIDDEN-" + g.Tok(), "HIDDEN-" + g.Tok()}
	r.Cap = backing[:2]
	r.Str = "abc"
	r.Iface = g.inner()
	ip := g.inner()
	r.IfacePtr = &ip
	r.IfaceMap = map[string]string{"k": g.Tok()}
	return r
}

// ---------- paths ----------

type StepKind int

const (
	SField StepKind = iota // .Name  or ["Name"]
	SIndex                 // [3] / [ix] / ["k"] / [1] for maps
	SSlice                 // [i:j]
	SCall                  // .Method(args)
)

type Step struct {
	Kind         StepKind
	Name         string      // field / method / map key (string)
	Bracket      bool        // spell a field/key step as ["Name"]
	Index        interface{} // int (literal), string (literal), VarRef
	Lo, Hi       int
	HasLo, HasHi bool
	LoRef, HiRef string // spell the bound as this variable (same value as Lo / Hi)
	Args         []interface{}
}

type VarRef string // a Go-int variable ("ix0".."ix3") or key variable

// Computed is an index written as an expression: V is its value, Fail says that evaluating it raises an error.
type Computed struct {
	Src  string
	V    interface{}
	Fail bool
}

type Path struct {
	Steps []Step
}

// Src prints the path applied to base ("r" or "." context form).
func (p Path) Src(base string) string {
	var b strings.Builder
	b.WriteString(base)
	for i, s := range p.Steps {
		switch s.Kind {
		case SField:
			if s.Bracket {
				b.WriteString(fmt.Sprintf("[%q]", s.Name))
			} else {
				if base == "." && i == 0 {
					b.WriteString(s.Name)
				} else {
					b.WriteString("." + s.Name)
				}
			}
		case SIndex:
			b.WriteString("[" + lit(s.Index) + "]")
		case SSlice:
			lo, hi := "", ""
			if s.HasLo {
				lo = fmt.Sprint(s.Lo)
				if s.LoRef != "" {
					lo = s.LoRef
				}
			}
			if s.HasHi {
				hi = fmt.Sprint(s.Hi)
				if s.HiRef != "" {
					hi = s.HiRef
				}
			}
			b.WriteString("[" + lo + ":" + hi + "]")
		case SCall:
			var as []string
			for _, a := range s.Args {
				as = append(as, lit(a))
			}
			if s.Bracket {
				// a method is a member like a field: a["M"](args) is a.M(args)
				b.WriteString(fmt.Sprintf("[%q](%s)", s.Name, strings.Join(as, ", ")))
			} else if base == "." && i == 0 {
				b.WriteString(s.Name + "(" + strings.Join(as, ", ") + ")")
			} else {
				b.WriteString("." + s.Name + "(" + strings.Join(as, ", ") + ")")
			}
		}
	}
	return b.String()
}

func lit(x interface{}) string {
	switch x := x.(type) {
	case string:
		return fmt.Sprintf("%q", x)
	case VarRef:
		return string(x)
	case Computed:
		return x.Src
	}
	return fmt.Sprint(x)
}

// ---------- reference resolver ----------

type Outcome int

const (
	OValue Outcome = iota
	ONil           // resolves, but to nil / nothing (absent map key, nil pointer value, nil interface)
	OError
	OUnspecified
)

func (o Outcome) String() string { return [...]string{"value", "nil", "error", "unspecified"}[o] }

type Resolved struct {
	Out    Outcome
	V      reflect.Value
	Why    string
	FailAt int // index of the failing step
}

// deref follows pointers and interfaces; nilHit reports a nil on the way.
func deref(v reflect.Value) (reflect.Value, bool) {
	for v.IsValid() && (v.Kind() == reflect.Ptr || v.Kind() == reflect.Interface) {
		if v.IsNil() {
			return v, true
		}
		v = v.Elem()
	}
	return v, false
}

// Vars gives the values of the VarRefs.
var Vars = map[VarRef]interface{}{"ix0": 0, "ix1": 1, "ix2": 2, "ix3": 3, "ixm1": -1, "ix9": 9, "kk1": "k1", "kempty": "", "karr": [2]string{"a", "b"}, "karr2": [2]string{"c", "d"}, "kabsent": "absent", "knamed": Key("nk"), "i64one": int64(1), "u8one": uint8(1), "izero": 0, "kslice": []int{1}, "kstruct": struct{ S []string }{[]string{"x"}},
	// comparable by static type, unhashable by dynamic value
	"kdyn":  struct{ ID interface{} }{[]int{7}},
	"kpair": [2]interface{}{"a", map[string]int{"z": 1}}}

// BoundKinds are the integer kinds slice bounds are also written with (variables b<kind><n>, n = 0..6).
var BoundKinds = []string{"u8", "i8", "u16", "i64", "u", "u32", "i"}

func init() {
	for n := 0; n <= 6; n++ {
		Vars[VarRef(fmt.Sprintf("bu8%d", n))] = uint8(n)
		Vars[VarRef(fmt.Sprintf("bi8%d", n))] = int8(n)
		Vars[VarRef(fmt.Sprintf("bu16%d", n))] = uint16(n)
		Vars[VarRef(fmt.Sprintf("bi64%d", n))] = int64(n)
		Vars[VarRef(fmt.Sprintf("bu%d", n))] = uint(n)
		Vars[VarRef(fmt.Sprintf("bu32%d", n))] = uint32(n)
		Vars[VarRef(fmt.Sprintf("bi%d", n))] = n
	}
}

func indexValue(x interface{}) reflect.Value {
	if c, ok := x.(Computed); ok {
		return reflect.ValueOf(c.V)
	}
	if r, ok := x.(VarRef); ok {
		return reflect.ValueOf(Vars[r])
	}
	if i, ok := x.(int); ok {
		return reflect.ValueOf(float64(i)) // numeric literals are float64 in jet
	}
	return reflect.ValueOf(x)
}

// Resolve walks p from root following Go's rules.
func Resolve(root reflect.Value, p Path) Resolved {
	v := root
	for i, s := range p.Steps {
		if !v.IsValid() {
			return Resolved{Out: OError, Why: "access on nil", FailAt: i}
		}
		base, isNil := deref(v)
		if isNil {
			return Resolved{Out: OError, Why: "nil dereference", FailAt: i}
		}
		switch s.Kind {
		case SField, SCall:
			// methods first (on the addressable value or pointer)
			if m := methodOf(v, base, s.Name); m.IsValid() {
				if s.Kind == SField {
					return Resolved{Out: OUnspecified, Why: "method value without call"}
				}
				mt := m.Type()
				if mt.NumIn() != len(s.Args) {
					return Resolved{Out: OError, Why: "argument count", FailAt: i}
				}
				var in []reflect.Value
				for k, a := range s.Args {
					av := indexValue(a)
					if !av.Type().ConvertibleTo(mt.In(k)) || (av.Kind() == reflect.String) != (mt.In(k).Kind() == reflect.String) {
						return Resolved{Out: OError, Why: "argument kind", FailAt: i}
					}
					in = append(in, av.Convert(mt.In(k)))
				}
				v = m.Call(in)[0]
				continue
			}
			if s.Kind == SCall {
				return Resolved{Out: OError, Why: "no such method", FailAt: i}
			}
			switch base.Kind() {
			case reflect.Struct:
				f, ok := base.Type().FieldByName(s.Name)
				if !ok {
					return Resolved{Out: OError, Why: "no such field", FailAt: i}
				}
				if f.PkgPath != "" {
					return Resolved{Out: OError, Why: "unexported field", FailAt: i}
				}
				fv, err := fieldByIndex(base, f.Index)
				if err != "" {
					return Resolved{Out: OError, Why: err, FailAt: i}
				}
				v = fv
			case reflect.Map:
				if base.Type().Key().Kind() != reflect.String {
					return Resolved{Out: OError, Why: "string key for non-string map", FailAt: i}
				}
				e := base.MapIndex(reflect.ValueOf(s.Name).Convert(base.Type().Key()))
				if !e.IsValid() {
					if !s.Bracket && i == len(p.Steps)-1 {
						return Resolved{Out: OUnspecified, Why: "absent key through dot access"}
					}
					if i != len(p.Steps)-1 { // whatever m.absent is taken to be (nil or an error), an access below it fails
						return Resolved{Out: OError, Why: "access on absent entry", FailAt: i + 1}
					}
					return Resolved{Out: ONil, Why: "absent key"}
				}
				v = e
			default:
				return Resolved{Out: OError, Why: "field access on " + base.Kind().String(), FailAt: i}
			}
		case SIndex:
			if c, ok := s.Index.(Computed); ok && c.Fail {
				return Resolved{Out: OError, Why: "index expression fails to evaluate", FailAt: i}
			}
			iv := indexValue(s.Index)
			switch base.Kind() {
			case reflect.Slice, reflect.Array, reflect.String:
				var x int
				switch iv.Kind() {
				case reflect.Int, reflect.Int64, reflect.Int8:
					x = int(iv.Int())
				case reflect.Uint8:
					x = int(iv.Uint())
				case reflect.Float64:
					if iv.Float() != float64(int(iv.Float())) {
						return Resolved{Out: OUnspecified, Why: "non-integral index"}
					}
					x = int(iv.Float())
				default:
					return Resolved{Out: OError, Why: "index of wrong kind", FailAt: i}
				}
				if x < 0 || x >= base.Len() {
					return Resolved{Out: OError, Why: "index out of range", FailAt: i}
				}
				v = base.Index(x)
			case reflect.Map:
				kt := base.Type().Key()
				isNum := func(k reflect.Kind) bool { return k >= reflect.Int && k <= reflect.Float64 }
				switch {
				case iv.Kind() == reflect.String && kt.Kind() == reflect.String:
				case isNum(iv.Kind()) && isNum(kt.Kind()):
				case kt.Kind() == reflect.Interface && (iv.Kind() == reflect.String || isNum(iv.Kind()) || iv.Kind() == reflect.Bool):
				default:
					return Resolved{Out: OError, Why: "key of wrong kind", FailAt: i}
				}
				e := base.MapIndex(iv.Convert(kt))
				if !e.IsValid() {
					if i != len(p.Steps)-1 {
						return Resolved{Out: OError, Why: "access on absent entry", FailAt: i + 1}
					}
					return Resolved{Out: ONil, Why: "absent key"}
				}
				v = e
			case reflect.Struct:
				if iv.Kind() != reflect.String {
					return Resolved{Out: OError, Why: "non-string index on struct", FailAt: i}
				}
				return Resolved{Out: OUnspecified, Why: "string-variable index on struct"}
			default:
				return Resolved{Out: OError, Why: "index on " + base.Kind().String(), FailAt: i}
			}
		case SSlice:
			switch base.Kind() {
			case reflect.Slice, reflect.String:
			case reflect.Array:
				return Resolved{Out: OUnspecified, Why: "slicing an array (addressability)"}
			default:
				return Resolved{Out: OError, Why: "slice of " + base.Kind().String(), FailAt: i}
			}
			lo, hi := 0, base.Len()
			if s.HasLo {
				lo = s.Lo
			}
			if s.HasHi {
				hi = s.Hi
			}
			if lo < 0 || hi < lo || hi > base.Len() {
				return Resolved{Out: OError, Why: "slice bounds out of range", FailAt: i}
			}
			v = base.Slice(lo, hi)
		}
	}
	if !v.IsValid() {
		return Resolved{Out: ONil}
	}
	end, isNil := deref(v)
	if isNil {
		return Resolved{Out: ONil, V: v, Why: "nil " + v.Kind().String()}
	}
	switch end.Kind() {
	case reflect.Map, reflect.Slice:
		if end.IsNil() {
			return Resolved{Out: ONil, V: v, Why: "nil " + end.Kind().String()}
		}
	}
	return Resolved{Out: OValue, V: v}
}

func methodOf(orig, base reflect.Value, name string) reflect.Value {
	// method sets: value methods always; pointer methods when a pointer (or addressable value) is at hand
	if orig.Kind() == reflect.Interface && !orig.IsNil() {
		orig = orig.Elem()
	}
	if orig.Kind() == reflect.Ptr && !orig.IsNil() {
		if m := orig.MethodByName(name); m.IsValid() {
			return m
		}
	}
	if base.IsValid() {
		if base.CanAddr() {
			if m := base.Addr().MethodByName(name); m.IsValid() {
				return m
			}
		}
		if m := base.MethodByName(name); m.IsValid() {
			return m
		}
	}
	return reflect.Value{}
}

func fieldByIndex(v reflect.Value, idx []int) (reflect.Value, string) {
	for i, x := range idx {
		if i > 0 && v.Kind() == reflect.Ptr {
			if v.IsNil() {
				return reflect.Value{}, "nil embedded pointer"
			}
			v = v.Elem()
		}
		v = v.Field(x)
	}
	return v, ""
}

// Printed is the form an action renders a resolved scalar in ("" and false when it is not a scalar).
func Printed(v reflect.Value) (string, bool) {
	e, isNil := deref(v)
	if isNil || !e.IsValid() {
		return "", false
	}
	switch e.Kind() {
	case reflect.String:
		return e.String(), true
	case reflect.Int, reflect.Int8, reflect.Int16, reflect.Int32, reflect.Int64:
		return fmt.Sprint(e.Int()), true
	case reflect.Uint, reflect.Uint8, reflect.Uint16, reflect.Uint32, reflect.Uint64:
		return fmt.Sprint(e.Uint()), true
	case reflect.Bool:
		return fmt.Sprint(e.Bool()), true
	case reflect.Slice:
		switch e.Type().Elem().Kind() {
		case reflect.String, reflect.Int:
			if v.Kind() == reflect.Slice { // a slice reached directly (not through a pointer) prints like fmt does
				return fmt.Sprint(e.Interface()), true
			}
		}
	}
	return "", false
}
