// Package prog is the harness' own model of a jet program: a small AST spread over a set of
// template files, a printer to jet source (recording the line of every action) and a reference
// evaluator implementing only the semantics spelled out by the properties and docs/syntax.md.
package prog

import (
	"fmt"
	"hash/fnv"
	"math/rand"
	"sort"
	"strings"
)

// ---------- values ----------

type Kind int

const (
	KNil Kind = iota
	KBool
	KInt
	KStr
	KList
	KMap
)

// Flavor says how a list value is realised as Go data.
type Flavor int

const (
	FlSliceStr    Flavor = iota // []string
	FlSliceIface                // []interface{}
	FlArray                     // [n]string
	FlPtrSlice                  // *[]string
	FlChan                      // closed buffered chan string (fresh per execution)
	FlRangerIdx                 // custom Ranger providing an index
	FlRangerNoIdx               // custom Ranger without index
	FlInts                      // ints(a,b): only as range subject expression
	FlMapStr                    // map[string]string (ranged as entries)
	FlNilSlice                  // []string(nil)
	nFlavors
)

type Value struct {
	K    Kind
	B    bool
	I    int
	S    string
	L    []Value // list elements (for FlMapStr: values, keys in Keys)
	Keys []string
	M    map[string]Value // KMap: string-keyed record (realised as map[string]interface{})
	Fl   Flavor
}

func Str(s string) Value                { return Value{K: KStr, S: s} }
func Int(i int) Value                   { return Value{K: KInt, I: i} }
func Bool(b bool) Value                 { return Value{K: KBool, B: b} }
func Nil() Value                        { return Value{} }
func List(fl Flavor, vs ...Value) Value { return Value{K: KList, Fl: fl, L: vs} }
func Rec(m map[string]Value) Value      { return Value{K: KMap, M: m} }

// Render is the printed form of a value as an action renders it (escaping aside).
func (v Value) Render() string {
	switch v.K {
	case KBool:
		if v.B {
			return "true"
		}
		return "false"
	case KInt:
		return fmt.Sprint(v.I)
	case KStr:
		return v.S
	case KList:
		var p []string
		for _, e := range v.L {
			p = append(p, e.Render())
		}
		return "[" + strings.Join(p, " ") + "]"
	case KMap:
		ks := make([]string, 0, len(v.M))
		for k := range v.M {
			ks = append(ks, k)
		}
		sort.Strings(ks)
		var p []string
		for _, k := range ks {
			p = append(p, k+":"+v.M[k].Render())
		}
		return "map[" + strings.Join(p, " ") + "]"
	}
	return ""
}

// Truthy: anything but false, 0, "" and nil (a non-nil collection is truthy).
func (v Value) Truthy() bool {
	switch v.K {
	case KBool:
		return v.B
	case KInt:
		return v.I != 0
	case KStr:
		return v.S != ""
	case KList:
		return v.Fl != FlNilSlice
	case KMap:
		return true
	}
	return false
}

func (v Value) IsNil() bool { return v.K == KNil || (v.K == KList && v.Fl == FlNilSlice) }

// ---------- expressions ----------

type Expr interface{ src() string }

type Lit struct{ V Value }               // string / int / bool / nil literal
type Var struct{ Name string }           // identifier
type Dot struct{}                        // .
type DotField struct{ Name string }      // .name
type VarField struct{ Var, Name string } // x.name
type Isset struct{ Name string }         // isset(x)
type IssetDot struct{}                   // isset(.)  -- not used
type Probe struct {
	ID  string
	Arg Expr
}                                // probe("id") or probe("id", arg): logs, evaluates to the id token
type Eq struct{ A, B Expr }      // a == b
type Concat struct{ A, B Expr }  // a + b on strings
type Ints struct{ From, To int } // ints(a,b): range subject only
type Exec struct {
	Name string
	Ctx  Expr
} // exec("name"[, ctx])
type IncludeIfExists struct {
	Name string
	Ctx  Expr
}

// IssetChain is isset(<E>.zzq): E is evaluated (with its side effects); whatever happens - E fails half-way, E has no
// such member - the result is false and the interpreter state is what it was before.
type IssetChain struct{ E Expr }

func (e IssetChain) src() string { return "isset(" + e.E.src() + ".zzq)" }

// Opaque is an expression the model does not interpret: its source and its outcome are given.
type Opaque struct {
	Src   string
	Val   Value
	Fails bool // evaluating it raises a jet-detected error
}

func (e Lit) src() string {
	switch e.V.K {
	case KStr:
		return fmt.Sprintf("%q", e.V.S)
	case KInt:
		return fmt.Sprint(e.V.I)
	case KBool:
		return fmt.Sprint(e.V.B)
	}
	return "nil"
}
func (e Var) src() string      { return e.Name }
func (e Dot) src() string      { return "." }
func (e DotField) src() string { return "." + e.Name }
func (e VarField) src() string { return e.Var + "." + e.Name }
func (e Isset) src() string    { return "isset(" + e.Name + ")" }
func (e IssetDot) src() string { return "isset(.)" }
func (e Probe) src() string {
	if e.Arg != nil {
		return fmt.Sprintf("probe(%q, %s)", e.ID, e.Arg.src())
	}
	return fmt.Sprintf("probe(%q)", e.ID)
}
func (e Eq) src() string     { return e.A.src() + " == " + e.B.src() }
func (e Concat) src() string { return e.A.src() + " + " + e.B.src() }
func (e Ints) src() string   { return fmt.Sprintf("ints(%d, %d)", e.From, e.To) }
func (e Exec) src() string {
	if e.Ctx != nil {
		return fmt.Sprintf("exec(%q, %s)", e.Name, e.Ctx.src())
	}
	return fmt.Sprintf("exec(%q)", e.Name)
}
func (e IncludeIfExists) src() string {
	if e.Ctx != nil {
		return fmt.Sprintf("includeIfExists(%q, %s)", e.Name, e.Ctx.src())
	}
	return fmt.Sprintf("includeIfExists(%q)", e.Name)
}
func (e Opaque) src() string { return e.Src }

// ---------- statements ----------

type Node interface{}

type Text struct{ S string }
type Print struct {
	E    Expr
	Pipe string // optional pipeline suffix (the model treats the output as given by E)
	// Writer names a SafeWriter applied as last command ("" = none: the Set's escaper applies);
	// Form: 0 "v | w", 1 "w: v", 2 "w(v)".
	Writer string
	Form   int
	pos
}
type Let struct { // a, b := e1, e2   ("_" discards)
	Names []string
	Es    []Expr
	pos
}
type Set struct { // a, b = e1, e2
	Names []string
	Es    []Expr
	pos
}
type If struct {
	LetName    string // if LetName := LetE; Cond
	LetE       Expr
	Cond       Expr
	Then, Else []Node
	HasElse    bool
	ElseIf     bool // Else is a single If printed as {{else if ..}}
	pos
}
type Range struct {
	Form    int  // 0: range s   1: range k := s   2: range k, v := s
	Assign  bool // '=' instead of ':='
	K, V    string
	Subj    Expr
	Body    []Node
	Else    []Node
	HasElse bool
	pos
}
type Param struct {
	Name    string
	Default Expr // nil: no default
}
type Arg struct {
	Name string
	E    Expr
}
type BlockDef struct {
	Name       string
	Params     []Param
	Ctx        Expr
	Body       []Node
	Content    []Node
	HasContent bool
	File       string
	pos
}
type Yield struct {
	Name       string
	Args       []Arg
	Ctx        Expr
	Content    []Node
	HasContent bool
	pos
}
type YieldContent struct {
	Ctx Expr
	pos
}
type Include struct {
	Name Expr // usually Lit string; computed names allowed
	Ctx  Expr
	pos
}
type Try struct {
	Body     []Node
	HasCatch bool
	CatchVar string
	Catch    []Node
	pos
}
type Return struct {
	E Expr
	pos
}
type Comment struct{ S string }

// RawFail is a statement the model does not interpret: it is printed verbatim (one line) and
// evaluating it raises an error; Positioned says whether jet detects the failure itself.
type RawFail struct {
	Src        string
	Positioned bool
	pos
}

// pos is filled in by the printer: the file and 1-based line of the action.
type pos struct {
	File string
	Line int
}

func (p *pos) setPos(f string, l int) { p.File, p.Line = f, l }
func (p *pos) Pos() (string, int)     { return p.File, p.Line }

type positioned interface{ setPos(string, int) }

// File is one template file.
type File struct {
	Path    string
	Extends string // name as spelt in the clause ("" = none)
	Imports []string
	Body    []Node
	Src     string // filled by Print
}

// Program is a template set plus the inputs of one execution.
type Program struct {
	Files   []*File
	Main    string           // path of the executed template
	Vars    map[string]Value // VarMap passed to Execute
	Globals map[string]Value
	Data    Value // context
	HasData bool
	Newline bool  // print every action on its own line (line numbers become meaningful)
	Trim    int64 // != 0: seed for random trim markers ({{- and -}}) on the printed actions
}

func (p *Program) File(path string) *File {
	for _, f := range p.Files {
		if f.Path == path {
			return f
		}
	}
	return nil
}

// ---------- printer ----------

type printer struct {
	b       strings.Builder
	line    int
	file    string
	Newline bool // put every statement on its own line
	trim    *rand.Rand
}

func (p *printer) w(s string) {
	p.b.WriteString(s)
	p.line += strings.Count(s, "\n")
}

func (p *printer) act(n positioned, body string) {
	if n != nil {
		n.setPos(p.file, p.line)
	}
	l, r := "{{", "}}"
	if p.trim != nil {
		if !strings.HasPrefix(body, " ") {
			body = " " + body
		}
		if !strings.HasSuffix(body, " ") {
			body += " "
		}
		if p.trim.Intn(3) == 0 {
			l = "{{-"
		}
		if p.trim.Intn(3) == 0 {
			r = "-}}"
		}
	}
	p.w(l + body + r)
	if p.Newline {
		p.w("\n")
	}
}

func exprList(es []Expr) string {
	var s []string
	for _, e := range es {
		s = append(s, e.src())
	}
	return strings.Join(s, ", ")
}

func (p *printer) nodes(ns []Node) {
	for _, n := range ns {
		p.node(n)
	}
}

func (p *printer) node(n Node) {
	switch n := n.(type) {
	case *Text:
		p.w(n.S)
	case *Comment:
		p.w("{*" + n.S + "*}")
	case *Print:
		switch {
		case n.Writer == "":
			p.act(n, " "+n.E.src()+n.Pipe+" ")
		case n.Form == 1:
			p.act(n, " "+n.Writer+": "+n.E.src()+" ")
		case n.Form == 2:
			p.act(n, " "+n.Writer+"("+n.E.src()+") ")
		default:
			p.act(n, " "+n.E.src()+" | "+n.Writer+" ")
		}
	case *Let:
		p.act(n, " "+strings.Join(n.Names, ", ")+" := "+exprList(n.Es)+" ")
	case *Set:
		p.act(n, " "+strings.Join(n.Names, ", ")+" = "+exprList(n.Es)+" ")
	case *If:
		p.ifNode(n, "if ")
		p.act(nil, "end")
	case *Range:
		h := "range "
		op := " := "
		if n.Assign {
			op = " = "
		}
		switch n.Form {
		case 1:
			h += n.K + op
		case 2:
			h += n.K + ", " + n.V + op
		}
		p.act(n, h+n.Subj.src())
		p.nodes(n.Body)
		if n.HasElse {
			p.act(nil, "else")
			p.nodes(n.Else)
		}
		p.act(nil, "end")
	case *BlockDef:
		var ps []string
		for _, q := range n.Params {
			if q.Default != nil {
				ps = append(ps, q.Name+"="+q.Default.src())
			} else {
				ps = append(ps, q.Name)
			}
		}
		h := "block " + n.Name + "(" + strings.Join(ps, ", ") + ")"
		if n.Ctx != nil {
			h += " " + n.Ctx.src()
		}
		n.File = p.file
		p.act(n, h)
		p.nodes(n.Body)
		if n.HasContent {
			p.act(nil, "content")
			p.nodes(n.Content)
		}
		p.act(nil, "end")
	case *Yield:
		var as []string
		for _, a := range n.Args {
			as = append(as, a.Name+"="+a.E.src())
		}
		h := "yield " + n.Name + "(" + strings.Join(as, ", ") + ")"
		if n.Ctx != nil {
			h += " " + n.Ctx.src()
		}
		if n.HasContent {
			p.act(n, h+" content")
			p.nodes(n.Content)
			p.act(nil, "end")
		} else {
			p.act(n, h)
		}
	case *YieldContent:
		h := "yield content"
		if n.Ctx != nil {
			h += " " + n.Ctx.src()
		}
		p.act(n, h)
	case *Include:
		h := "include " + n.Name.src()
		if n.Ctx != nil {
			h += " " + n.Ctx.src()
		}
		p.act(n, h)
	case *Try:
		p.act(n, "try")
		p.nodes(n.Body)
		if n.HasCatch {
			if n.CatchVar != "" {
				p.act(nil, "catch "+n.CatchVar)
			} else {
				p.act(nil, "catch")
			}
			p.nodes(n.Catch)
		}
		p.act(nil, "end")
	case *Return:
		p.act(n, "return "+n.E.src())
	case *RawFail:
		n.setPos(p.file, p.line)
		p.w(n.Src)
		if p.Newline {
			p.w("\n")
		}
	default:
		panic(fmt.Sprintf("prog: cannot print %T", n))
	}
}

func (p *printer) ifNode(n *If, kw string) {
	h := kw
	if n.LetName != "" {
		h += n.LetName + " := " + n.LetE.src() + "; "
	}
	p.act(n, h+n.Cond.src())
	p.nodes(n.Then)
	if n.HasElse {
		if n.ElseIf {
			p.ifNode(n.Else[0].(*If), "else if ")
		} else {
			p.act(nil, "else")
			p.nodes(n.Else)
		}
	}
}

// PrintFile renders f to jet source (default delimiters) and fills in positions.
func PrintFile(f *File, newline bool, trim int64) string {
	p := &printer{line: 1, file: f.Path, Newline: newline}
	if trim != 0 {
		h := fnv.New64a()
		h.Write([]byte(f.Path))
		p.trim = rand.New(rand.NewSource(trim ^ int64(h.Sum64())))
	}
	if f.Extends != "" {
		p.w(fmt.Sprintf("{{extends %q}}", f.Extends))
		if newline {
			p.w("\n")
		}
	}
	for _, im := range f.Imports {
		p.w(fmt.Sprintf("{{import %q}}", im))
		if newline {
			p.w("\n")
		}
	}
	p.nodes(f.Body)
	f.Src = p.b.String()
	return f.Src
}

// Sources prints every file of the program.
func (pr *Program) Sources(newline bool) map[string]string {
	m := map[string]string{}
	for _, f := range pr.Files {
		m[f.Path] = PrintFile(f, newline, pr.Trim)
	}
	return m
}
