package prog

import (
	"fmt"
	"math/rand"
	"strings"
)

// Cfg selects the constructs a generated program may use.
type Cfg struct {
	Items           int // statements per list (upper bound)
	MaxDepth        int
	Ifs             bool
	Ranges          bool
	Vars            bool // := and = statements, shadowing, captures
	Blocks          bool // block definitions, yields, content
	MultiFile       bool // extends chains and imports
	Includes        bool
	Try             bool
	Fails           bool // failing actions (inside try when Try is set, else at most one ending the execution)
	FailAnywhere    bool // a failing action may appear outside try
	Ctx             bool // explicit contexts on yield/include/block
	CondKinds       bool // non-bool condition values
	RangeErrs       bool // two-variable range over index-less rangers (an error)
	IncludeIfExists bool
	ExecNoReturn    bool
	// CondOpaques are extra condition expressions the model only knows the truthiness of
	// (e.g. variables holding floats or narrow ints supplied through RunOpts.ExtraVars).
	CondOpaques []Opaque
	SharedNames bool // block bodies and callers declare locals of the same name around yield content
	IncludeLoop bool // include with a name computed from a loop variable
	// Values are opaque root-level expressions (supplied through ExtraVars) rendered at value sites;
	// Writers are the SafeWriter names a value site may end with.
	Values  []Opaque
	Writers []string
	// StateProbes wraps constructs in sp("n","b") / sp("n","a") calls that snapshot the interpreter state
	// (verif hook) before and after; the states must be equal.
	StateProbes bool
	// IssetSwallow: isset(exec("/swf.jet", ctx).zzq) / isset(includeIfExists("/swf.jet", ctx).zzq) where /swf.jet fails at run time:
	// isset swallows the failure and everything (context, scopes, content) is as before.
	IssetSwallow bool
	// PanicFuncs: failing actions inside try may call panicstr() / panicval(), functions (ExtraVars) that panic with a value
	// that is no error (a string, a Stringer).
	PanicFuncs bool
}

type blockInfo struct {
	name        string
	params      []Param
	usesContent bool
}

type gen struct {
	r         *rand.Rand
	cfg       Cfg
	n         int
	frames    [][]string // visible variable names (innermost last)
	kinds     map[string]Kind
	ctx       int // 0 nil, 1 string, 2 record, -1 unknown but printable, -2 must not be read
	p         *Program
	file      *File
	blocks    []blockInfo // block names yieldable from the current file when executed in the current family
	inBlock   int
	inContent int
	inCB      int      // inside the body of a block that uses content (or content nested in it)
	lists     []string // names of list-valued root variables
	listFl    map[string]Flavor
	nfail     int
	inTry     int
	feat      map[string]bool
	chanUsed  map[string]bool
	incDepth  int
	incFiles  []string
	mainRoot  bool     // generating the body of the root template of the executed chain
	where     []string // construct path of the statement being generated (coverage accounting)
}

func (g *gen) enter(w string) func() {
	g.where = append(g.where, w)
	return func() { g.where = g.where[:len(g.where)-1] }
}

func (g *gen) tok(prefix string) string {
	g.n++
	return fmt.Sprintf("%s%d", prefix, g.n)
}

// text: literal text; now and then with percent signs (nothing on the way to the writer treats output as a format)
func (g *gen) text() *Text {
	if g.r.Intn(6) == 0 {
		return &Text{S: g.tok("T") + "%d 100%% %s;"}
	}
	return &Text{S: g.tok("T") + ";"}
}

func (g *gen) push() { g.frames = append(g.frames, nil) }
func (g *gen) pop()  { g.frames = g.frames[:len(g.frames)-1] }
func (g *gen) declare(name string, k Kind) {
	g.frames[len(g.frames)-1] = append(g.frames[len(g.frames)-1], name)
	g.kinds[name] = k
}
func (g *gen) visible(k Kind, any bool) []string {
	var out []string
	seen := map[string]bool{}
	for i := len(g.frames) - 1; i >= 0; i-- {
		for _, n := range g.frames[i] {
			if !seen[n] && (any || g.kinds[n] == k) {
				out = append(out, n)
			}
			seen[n] = true
		}
	}
	return out
}
func (g *gen) isVisible(name string) bool {
	for _, f := range g.frames {
		for _, n := range f {
			if n == name {
				return true
			}
		}
	}
	return false
}

func (g *gen) pick(s []string) string { return s[g.r.Intn(len(s))] }

// scalar expression producing a printable scalar value
func (g *gen) scalar() Expr {
	vs := g.visible(KStr, false)
	switch k := g.r.Intn(10); {
	case k < 3 && len(vs) > 0:
		return Var{g.pick(vs)}
	case k < 4 && g.ctx == 1:
		return Dot{}
	case k < 4 && g.ctx == 2:
		return DotField{"name"}
	case k < 6:
		return Lit{Int(g.r.Intn(90) + 1)}
	case k < 7:
		return Lit{Bool(g.r.Intn(2) == 0)}
	}
	return Lit{Str(g.tok("s"))}
}

func (g *gen) strExpr() Expr {
	vs := g.visible(KStr, false)
	if len(vs) > 0 && g.r.Intn(2) == 0 {
		return Var{g.pick(vs)}
	}
	return Lit{Str(g.tok("c"))}
}

// observe prints something that exposes interpreter state
func (g *gen) observe() []Node {
	var out []Node
	if len(g.cfg.Values) > 0 && g.r.Intn(2) == 0 {
		// a value site: data rendered by an action, optionally through a SafeWriter as last command
		v := g.cfg.Values[g.r.Intn(len(g.cfg.Values))]
		pr := &Print{E: v}
		g.feat["value-site"] = true
		w := g.where
		if len(w) > 5 {
			w = w[len(w)-5:]
		}
		g.feat["site@"+strings.Join(w, ">")] = true
		if len(g.cfg.Writers) > 0 && g.r.Intn(3) == 0 {
			pr.Writer = g.cfg.Writers[g.r.Intn(len(g.cfg.Writers))]
			pr.Form = g.r.Intn(3)
			g.feat["writer-"+pr.Writer] = true
			g.feat[fmt.Sprintf("writer-form-%d", pr.Form)] = true
		}
		return []Node{&Text{S: "‖"}, pr, &Text{S: "‖"}}
	}
	all := g.visible(0, true)
	switch k := g.r.Intn(10); {
	case k < 4 && len(all) > 0:
		n := g.pick(all)
		if g.kinds[n] == KList || g.kinds[n] == KMap {
			out = append(out, &Text{S: "[?" + n + "="}, &Print{E: Isset{n}}, &Text{S: "]"})
		} else {
			out = append(out, &Text{S: "[" + n + "="}, &Print{E: Var{n}}, &Text{S: "]"})
		}
	case k < 6:
		// a name that may or may not be visible here
		n := fmt.Sprintf("v%d", 1+g.r.Intn(g.n+2))
		if g.r.Intn(3) == 0 && len(all) > 0 {
			n = g.pick(all)
		}
		out = append(out, &Text{S: "[?" + n + "="}, &Print{E: Isset{n}}, &Text{S: "]"})
	case k < 9:
		switch g.ctx {
		case 2:
			out = append(out, &Text{S: "[.n="}, &Print{E: DotField{"name"}}, &Text{S: "]"})
		case -2:
			out = append(out, g.text())
		default:
			out = append(out, &Text{S: "[.="}, &Print{E: Dot{}}, &Text{S: "]"})
		}
	default:
		out = append(out, g.text())
	}
	return out
}

func (g *gen) stmt(depth int) []Node {
	ns := g.stmt0(depth)
	if !g.cfg.StateProbes || len(ns) == 0 || g.r.Intn(2) == 0 {
		return ns
	}
	// only constructs that must leave scopes, context, content and writer as they found them
	wrap := false
	for _, n := range ns {
		switch n.(type) {
		case *If, *Range, *Yield, *Try, *Include, *YieldContent:
			wrap = true
		case *Let:
			return ns // a declaration at this level legitimately opens the list's scope
		}
	}
	if !wrap {
		return ns
	}
	g.n++
	id := fmt.Sprintf("sp%d", g.n)
	tok := fmt.Sprintf("spt%d", g.n)
	g.feat["state-probe"] = true
	// the "before" probe returns a token unique to this dynamic execution; it is kept in a local variable and
	// handed to the "after" probe, so the two snapshots are paired exactly even when the construct is re-entered
	out := []Node{&Let{Names: []string{tok}, Es: []Expr{Opaque{Src: fmt.Sprintf("sp(%q, \"b\")", id), Val: Int(0)}}}}
	out = append(out, ns...)
	return append(out, &Print{E: Opaque{Src: fmt.Sprintf("sp(%q, \"a\", %s)", id, tok), Val: Str("")}})
}

func (g *gen) stmt0(depth int) []Node {
	c := g.cfg
	for tries := 0; tries < 20; tries++ {
		switch k := g.r.Intn(25); {
		case k == 24:
			if !c.IssetSwallow || g.r.Intn(2) == 0 {
				continue
			}
			g.feat["isset-swallows-failing-exec"] = true
			var e Expr = Exec{Name: "/swf.jet", Ctx: g.ctxExpr()}
			if c.IncludeIfExists && g.r.Intn(2) == 0 {
				e = IncludeIfExists{Name: "/swf.jet", Ctx: g.ctxExpr()}
			}
			return []Node{&Text{S: "<sw:"}, &Print{E: IssetChain{E: e}}, &Text{S: ">"}}
		case k < 3:
			return []Node{g.text()}
		case k < 7:
			return g.observe()
		case k < 9 && c.Vars:
			return g.letStmt()
		case k < 11 && c.Vars:
			if s := g.setStmt(); s != nil {
				return s
			}
		case k == 11 && c.Vars:
			return g.shadowSnippet()
		case k < 14 && c.Ifs && depth < c.MaxDepth:
			return []Node{g.ifStmt(depth)}
		case k < 17 && c.Ranges && depth < c.MaxDepth:
			return g.rangeStmt(depth)
		case k < 19 && c.Blocks && len(g.blocks) > 0 && depth < c.MaxDepth:
			return g.yieldStmt(depth)
		case k == 19 && c.Blocks && g.inCB > 0:
			g.feat["yield-content"] = true
			yc := &YieldContent{}
			if c.Ctx && g.r.Intn(4) == 0 && g.inContent == 0 {
				yc.Ctx = Lit{Str(g.tok("yc"))}
				g.feat["yield-content-ctx"] = true
			}
			return []Node{yc}
		case k == 20 && c.Includes && depth < c.MaxDepth && g.inBlock == 0:
			if s := g.includeStmt(); s != nil {
				return s
			}
		case k == 21 && c.Try && depth < c.MaxDepth:
			return []Node{g.tryStmt(depth)}
		case k == 22 && c.Fails && (g.inTry > 0 || c.FailAnywhere) && g.nfail < 3:
			if g.inTry == 0 && g.r.Intn(6) != 0 {
				continue
			}
			g.nfail++
			g.feat["fail"] = true
			return []Node{g.failStmt()}
		case k == 23 && c.Vars && depth < c.MaxDepth:
			return []Node{g.probeDiscard()}
		}
	}
	return []Node{g.text()}
}

func (g *gen) failStmt() Node {
	g.n++
	if len(g.cfg.Writers) > 0 && g.r.Intn(3) == 0 {
		// a SafeWriter command whose argument fails to evaluate (after a first argument was already written)
		g.feat["fail-in-writer-command"] = true
		w := g.cfg.Writers[g.r.Intn(len(g.cfg.Writers))]
		return &RawFail{Src: fmt.Sprintf(`{{ %s: "ok%d", nosuch%d }}`, w, g.n, g.n), Positioned: true}
	}
	if g.inTry > 0 && g.cfg.PanicFuncs && g.r.Intn(5) == 0 {
		// a called function panicking with a value that is no error: a failure of the try body like any other
		g.feat["fail-panic-with-non-error-value"] = true
		return &Print{E: Opaque{Src: []string{"panicstr()", "panicval()"}[g.r.Intn(2)], Fails: true}}
	}
	if g.inTry > 0 && g.r.Intn(5) == 0 {
		// a Go run-time error (integer division by zero) raised by the evaluation itself: inside a try it is a failure of
		// the body like any other (outside a try it would, by design, escape Execute as a panic: never generated there)
		g.feat["fail-go-runtime-error"] = true
		return &Print{E: Opaque{Src: []string{`len("ab") / len("")`, `len("abc") % len("")`}[g.r.Intn(2)], Fails: true}}
	}
	switch g.r.Intn(4) {
	case 0:
		return &Print{E: Opaque{Src: fmt.Sprintf("nosuch%d", g.n), Fails: true}}
	case 1:
		return &Print{E: Opaque{Src: fmt.Sprintf("\"x\" * %d", g.n), Fails: true}}
	case 2:
		return &Set{Names: []string{fmt.Sprintf("undeclared%d", g.n)}, Es: []Expr{Lit{Int(1)}}}
	}
	return &Yield{Name: fmt.Sprintf("noblock%d", g.n)}
}

func (g *gen) probeDiscard() Node {
	g.feat["discard"] = true
	return &Let{Names: []string{"_"}, Es: []Expr{Probe{ID: g.tok("p")}}}
}

func (g *gen) letStmt() []Node {
	g.feat["let"] = true
	name := g.tok("v")
	// occasionally re-declare a name that is visible in an outer scope (shadowing)
	if vs := g.visible(KStr, false); len(vs) > 0 && g.r.Intn(4) == 0 && g.inBlock == 0 && g.inContent == 0 {
		cand := g.pick(vs)
		if strings.HasPrefix(cand, "v") {
			name = cand
			g.feat["shadow-local"] = true
		}
	}
	e := g.scalarStr()
	out := []Node{&Let{Names: []string{name}, Es: []Expr{e}}}
	if g.r.Intn(4) == 0 {
		n2 := g.tok("v")
		out = []Node{&Let{Names: []string{name, n2}, Es: []Expr{e, g.scalarStr()}}}
		g.declare(n2, KStr)
		g.feat["multi-let"] = true
	}
	g.declare(name, KStr)
	return out
}

// scalarStr yields an expression whose value is a string (so the variable kind stays printable and truthy-testable)
func (g *gen) scalarStr() Expr {
	vs := g.visible(KStr, false)
	switch k := g.r.Intn(8); {
	case k < 2 && len(vs) > 0:
		return Var{g.pick(vs)}
	case k == 2 && g.ctx == 1:
		return Dot{}
	case k == 2 && g.ctx == 2:
		return DotField{"name"}
	case k == 3:
		return Probe{ID: g.tok("p")}
	}
	return Lit{Str(g.tok("s"))}
}

func (g *gen) setStmt() []Node {
	var vs []string
	for _, v := range g.visible(KStr, false) {
		// '=' rebinds variables; Set globals and built-ins are not variables (assigning to them fails in jet
		// and the statement of C07 does not say either way), so they are never assignment targets
		if _, isVar := g.p.Vars[v]; isVar || (v != "g1" && v != "upper" && v != "w1" && v != "lower") {
			vs = append(vs, v)
		}
	}
	if len(vs) == 0 {
		return nil
	}
	g.feat["set"] = true
	n := g.pick(vs)
	if g.r.Intn(5) == 0 && len(vs) > 1 {
		m := g.pick(vs)
		if m != n {
			g.feat["multi-set"] = true
			return []Node{&Set{Names: []string{n, m}, Es: []Expr{Lit{Str(g.tok("s"))}, Lit{Str(g.tok("s"))}}}}
		}
	}
	return []Node{&Set{Names: []string{n}, Es: []Expr{g.scalarStr()}}}
}

// shadowSnippet: a leaf construct that shadows a root-level name (VarMap variable, global, built-in)
// by a local and shows that the outer binding is back afterwards. It contains no yield/include, so
// how blocks see the yielder's locals (a design choice) never matters.
func (g *gen) shadowSnippet() []Node {
	roots := []string{"u1", "w1", "g1", "lower", "upper"}
	n := g.pick(roots)
	g.feat["shadow-root"] = true
	tok := g.tok("sh")
	return []Node{
		&Text{S: "[" + n + "0="}, &Print{E: g.rootRead(n)}, &Text{S: "]"},
		&If{Cond: Lit{Bool(true)}, Then: []Node{
			&Let{Names: []string{n}, Es: []Expr{Lit{Str(tok)}}},
			&Text{S: "[" + n + "1="}, &Print{E: Var{n}}, &Text{S: "]"},
		}},
		&Text{S: "[" + n + "2="}, &Print{E: g.rootRead(n)}, &Text{S: "]"},
	}
}

// rootRead reads a root-level name; function-valued built-ins are only probed with isset.
func (g *gen) rootRead(n string) Expr {
	if _, ok := g.p.Vars[n]; ok {
		return Var{n}
	}
	if _, ok := g.p.Globals[n]; ok {
		return Var{n}
	}
	return Isset{n}
}

func (g *gen) cond() Expr {
	if len(g.cfg.CondOpaques) > 0 && g.r.Intn(3) == 0 {
		g.feat["cond-opaque"] = true
		return g.cfg.CondOpaques[g.r.Intn(len(g.cfg.CondOpaques))]
	}
	if g.cfg.CondKinds {
		switch g.r.Intn(9) {
		case 0:
			return Lit{Int(0)}
		case 1:
			return Lit{Int(g.r.Intn(5))}
		case 2:
			return Lit{Str("")}
		case 3:
			return Lit{Nil()}
		case 4:
			if vs := g.visible(KStr, false); len(vs) > 0 {
				return Var{g.pick(vs)}
			}
		case 5:
			// collections as conditions: nil is falsy, non-nil is truthy; zero-valued arrays are left out (DESIGN 2.4)
			var ls []string
			for _, l := range g.lists {
				if g.listFl[l] != FlArray {
					ls = append(ls, l)
				}
			}
			if len(ls) > 0 {
				return Var{g.pick(ls)}
			}
		case 6:
			return Isset{fmt.Sprintf("v%d", 1+g.r.Intn(g.n+2))}
		case 7:
			if vs := g.visible(KStr, false); len(vs) > 0 {
				return Eq{Var{g.pick(vs)}, Lit{Str(g.tok("s"))}}
			}
		}
	}
	return Lit{Bool(g.r.Intn(2) == 0)}
}

func (g *gen) list(depth int) []Node {
	g.push()
	defer g.pop()
	var out []Node
	for i := 1 + g.r.Intn(g.cfg.Items); i > 0; i-- {
		out = append(out, g.stmt(depth)...)
	}
	return out
}

func (g *gen) ifStmt(depth int) *If {
	g.feat["if"] = true
	n := &If{}
	g.push() // scope of the if-let
	if g.cfg.Vars && g.r.Intn(4) == 0 {
		n.LetName = g.tok("v")
		n.LetE = g.scalarStr()
		g.declare(n.LetName, KStr)
		g.feat["if-let"] = true
	}
	n.Cond = g.cond()
	leave := g.enter("if")
	defer leave()
	n.Then = g.list(depth + 1)
	if g.r.Intn(2) == 0 {
		n.HasElse = true
		if g.r.Intn(3) == 0 && depth+1 < g.cfg.MaxDepth {
			g.feat["else-if"] = true
			n.ElseIf = true
			g.push()
			n.Else = []Node{g.ifStmt(depth + 1)}
			g.pop()
		} else {
			n.Else = g.list(depth + 1)
		}
	}
	g.pop()
	return n
}

func (g *gen) rangeStmt(depth int) []Node {
	g.feat["range"] = true
	n := &Range{Form: g.r.Intn(3)}
	var pre []Node
	elemStr := true
	providesIdx := true
	// subject
	switch k := g.r.Intn(6); {
	case k == 0:
		a := g.r.Intn(7) - 3 // negative limits too: ints(-3, -1) is -3, -2
		n.Subj = Ints{a, a + 1 + g.r.Intn(3)}
		elemStr = false
		g.feat["range-ints"] = true
	case k == 1 && g.ctx == 2:
		n.Subj = DotField{"items"}
		g.feat["range-ctx-field"] = true
	default:
		var cands []string
		for _, l := range g.lists {
			switch g.listFl[l] {
			case FlChan, FlRangerIdx, FlRangerNoIdx:
				// single-cursor subjects: only where the statement runs exactly once and cannot nest
				// (top level of the executed root template); a channel is drained only once
				if !(g.mainRoot && depth == 0 && g.inBlock == 0 && g.inContent == 0) || (g.listFl[l] == FlChan && g.chanUsed[l]) {
					continue
				}
			}
			cands = append(cands, l)
		}
		if len(cands) == 0 {
			n.Subj = Ints{0, 2}
			elemStr = false
		} else {
			l := g.pick(cands)
			n.Subj = Var{l}
			fl := g.listFl[l]
			if fl == FlChan {
				g.chanUsed[l] = true // a channel can be drained only once per execution
			}
			if fl == FlChan || fl == FlRangerNoIdx {
				providesIdx = false
			}
			if fl == FlSliceIface {
				elemStr = false
			}
			g.feat[fmt.Sprintf("range-flavor-%d", fl)] = true
		}
	}
	if n.Form == 2 && !providesIdx {
		if g.cfg.RangeErrs && g.cfg.Fails && (g.inTry > 0 || g.cfg.FailAnywhere) && g.nfail < 3 && g.r.Intn(3) == 0 {
			g.nfail++
			g.feat["range-two-var-no-index"] = true
		} else {
			n.Form = 1
		}
	}
	g.push()
	saveCtx := g.ctx
	if n.Form > 0 && g.cfg.Vars && g.r.Intn(4) == 0 {
		// '=' form: the variables must exist
		n.Assign = true
		n.K = g.tok("v")
		pre = append(pre, &Let{Names: []string{n.K}, Es: []Expr{Lit{Str(g.tok("s"))}}})
		g.frames[len(g.frames)-2] = append(g.frames[len(g.frames)-2], n.K)
		g.kinds[n.K] = KInt
		if n.Form == 2 && g.r.Intn(6) == 0 {
			n.V = "_" // the value is discarded: nothing to declare, '.' stays
			g.feat["range-assign-discard-value"] = true
		} else if n.Form == 2 {
			n.V = g.tok("v")
			pre = append(pre, &Let{Names: []string{n.V}, Es: []Expr{Lit{Str(g.tok("s"))}}})
			g.frames[len(g.frames)-2] = append(g.frames[len(g.frames)-2], n.V)
			g.kinds[n.V] = KInt
		}
		g.feat["range-assign"] = true
	} else if n.Form > 0 {
		n.K = g.tok("v")
		if n.Form == 2 {
			n.V = g.tok("v")
			// '_' discards the index/key or the value; nothing else changes (in particular '.' stays what it was)
			switch g.r.Intn(8) {
			case 0:
				n.V = "_"
				g.feat["range-discard-value"] = true
			case 1:
				n.K = "_"
				g.feat["range-discard-key"] = true
			}
		}
		if n.K != "_" {
			g.declare(n.K, KInt)
		}
		if n.Form == 2 && n.V != "_" {
			g.declare(n.V, KInt)
		}
	}
	// kinds of the loop variables (KStr variables may be used as string sources elsewhere)
	switch n.Form {
	case 1:
		if !providesIdx && elemStr {
			g.kinds[n.K] = KStr
		}
	case 2:
		if elemStr && n.V != "_" {
			g.kinds[n.V] = KStr
		}
	}
	// context inside the body
	if n.Form == 0 || (n.Form == 1 && providesIdx) {
		g.ctx = 1
	}
	// body: show the bindings, optionally capture them into an outer variable
	var body []Node
	body = append(body, &Text{S: "<r:"})
	if n.Form >= 1 && n.K != "_" {
		body = append(body, &Text{S: "k="}, &Print{E: Var{n.K}}, &Text{S: ";"})
	}
	if n.Form == 2 && n.V != "_" {
		body = append(body, &Text{S: "v="}, &Print{E: Var{n.V}}, &Text{S: ";"})
	}
	if g.ctx == 1 {
		body = append(body, &Text{S: ".="}, &Print{E: Dot{}}, &Text{S: ";"})
	}
	var post []Node
	if g.cfg.Vars && g.r.Intn(3) == 0 {
		// capture a loop variable (or '.') in a variable declared before the loop, read it after the loop
		cap := g.tok("v")
		pre = append(pre, &Let{Names: []string{cap}, Es: []Expr{Lit{Str(g.tok("s"))}}})
		var src Expr
		switch {
		case n.Form == 2 && n.V != "_" && (n.K == "_" || g.r.Intn(2) == 0):
			src = Var{n.V}
		case n.Form >= 1 && n.K != "_":
			src = Var{n.K}
		case n.Form >= 1:
			src = Lit{Str(g.tok("s"))}
		default:
			src = Dot{}
		}
		if g.r.Intn(2) == 0 {
			// only the first iteration captures: later iterations must not change the captured value
			first := g.tok("v")
			pre = append(pre, &Let{Names: []string{first}, Es: []Expr{Lit{Str("")}}})
			body = append(body, &If{Cond: Var{first}, HasElse: true, Else: []Node{&Set{Names: []string{cap, first}, Es: []Expr{src, Lit{Str("x")}}}}})
		} else {
			body = append(body, &Set{Names: []string{cap}, Es: []Expr{src}})
		}
		post = append(post, &Text{S: "[cap " + cap + "="}, &Print{E: Var{cap}}, &Text{S: "]"})
		g.feat["capture-loop-var"] = true
	}
	leaveR := g.enter("range")
	body = append(body, g.list(depth+1)...)
	leaveR()
	body = append(body, &Text{S: "/r>"})
	n.Body = body
	g.ctx = saveCtx
	if g.r.Intn(2) == 0 {
		n.HasElse = true
		n.Else = append([]Node{&Text{S: "<relse:"}}, append(g.list(depth+1), &Text{S: ">"})...)
		g.feat["range-else"] = true
	}
	g.pop()
	out := append(pre, n)
	out = append(out, post...)
	// the pre-declared variables live in the enclosing list
	for _, p := range pre {
		if l, ok := p.(*Let); ok {
			for _, nm := range l.Names {
				if !g.isVisible(nm) {
					g.declare(nm, KInt)
				}
			}
		}
	}
	return out
}

func (g *gen) ctxExpr() Expr {
	switch g.r.Intn(3) {
	case 0:
		if vs := g.visible(KStr, false); len(vs) > 0 {
			return Var{g.pick(vs)}
		}
	case 1:
		if g.ctx == 2 {
			return DotField{"name"}
		}
	}
	return Lit{Str(g.tok("x"))}
}

// yieldStmt: a yield, sometimes passing arguments the block does not declare. Such an argument is a variable of the
// block body's scope and of nothing else: a caller's variable of that name is what it was afterwards, a name the caller
// never declared is gone, and the declared parameters the yield leaves out still get their defaults.
func (g *gen) yieldStmt(depth int) []Node {
	out := g.yieldStmt0(depth)
	if g.r.Intn(4) != 0 {
		return out
	}
	var y *Yield
	for _, n := range out {
		if yy, ok := n.(*Yield); ok {
			y = yy
		}
	}
	if y == nil {
		return out
	}
	var own []string
	for _, v := range g.visible(KStr, false) {
		if !strings.HasPrefix(v, "p_") {
			own = append(own, v)
		}
	}
	for k := 1 + g.r.Intn(2); k > 0; k-- {
		name := g.tok("xa")
		if len(own) > 0 && g.r.Intn(3) != 0 {
			name = g.pick(own)
		}
		dup := false
		for _, a := range y.Args {
			dup = dup || a.Name == name
		}
		if dup {
			continue
		}
		at := g.r.Intn(len(y.Args) + 1)
		y.Args = append(y.Args[:at], append([]Arg{{Name: name, E: Lit{Str(g.tok("ua"))}}}, y.Args[at:]...)...)
		g.feat["yield-undeclared-arg"] = true
		if g.isVisible(name) {
			out = append(out, &Text{S: "[" + name + " after yield="}, &Print{E: Var{name}}, &Text{S: "]"})
		}
	}
	return out
}

func (g *gen) yieldStmt0(depth int) []Node {
	b := g.blocks[g.r.Intn(len(g.blocks))]
	g.feat["yield"] = true
	y := &Yield{Name: b.name}
	// named arguments in random order, some omitted
	perm := g.r.Perm(len(b.params))
	for _, i := range perm {
		if g.r.Intn(3) != 0 {
			y.Args = append(y.Args, Arg{Name: b.params[i].Name, E: g.argExpr()})
			g.feat["yield-arg"] = true
		} else {
			g.feat["yield-default"] = true
		}
	}
	if g.cfg.Ctx && g.r.Intn(3) == 0 {
		y.Ctx = g.ctxExpr()
		g.feat["yield-ctx"] = true
	}
	if b.usesContent || g.r.Intn(5) == 0 {
		y.HasContent = true
		g.feat["yield-with-content"] = true
		saveCtx := g.ctx
		g.ctx = -2 // content bodies do not read '.' (it is the block's, see DESIGN 2.4)
		g.inContent++
		leaveC := g.enter("content")
		y.Content = append([]Node{&Text{S: "<c:"}}, append(g.list(depth+1), &Text{S: ">"})...)
		leaveC()
		if g.r.Intn(8) == 0 {
			// an empty content clause is still the content: a block rendering 'yield content' renders nothing, not
			// the content of some enclosing yield
			y.Content = nil
			g.feat["yield-with-empty-content"] = true
			g.inContent--
			g.ctx = saveCtx
			return []Node{y}
		}
		g.inContent--
		g.ctx = saveCtx
		if g.cfg.SharedNames && g.r.Intn(2) == 0 {
			// the caller and the block both declare a local called sv1/sv2; the content must see the caller's
			sv := g.pick([]string{"sv1", "sv2"})
			y.Content = append(y.Content, &Text{S: "[" + sv + "="}, &Print{E: Var{sv}}, &Text{S: "]"})
			g.feat["shared-name-content"] = true
			return []Node{&Let{Names: []string{sv}, Es: []Expr{Lit{Str(g.tok("caller"))}}}, y}
		}
	}
	return []Node{y}
}

func (g *gen) argExpr() Expr {
	// arguments must not mention parameter names; literals and caller variables only
	vs := g.visible(KStr, false)
	var ok []string
	for _, v := range vs {
		if !strings.HasPrefix(v, "p_") {
			ok = append(ok, v)
		}
	}
	if len(ok) > 0 && g.r.Intn(2) == 0 {
		return Var{g.pick(ok)}
	}
	return Lit{Str(g.tok("a"))}
}

func (g *gen) tryStmt(depth int) *Try {
	g.feat["try"] = true
	t := &Try{}
	g.inTry++
	leaveT := g.enter("try")
	t.Body = g.list(depth + 1)
	leaveT()
	g.inTry--
	leaveK := g.enter("catch")
	defer leaveK()
	switch g.r.Intn(3) {
	case 0:
		t.HasCatch = true
		t.Catch = append([]Node{&Text{S: "<catch:"}}, append(g.list(depth+1), &Text{S: ">"})...)
	case 1:
		t.HasCatch = true
		t.CatchVar = g.tok("e")
		if g.r.Intn(5) == 0 {
			// a catch clause with a variable and an empty body: the failure is swallowed, nothing else happens
			g.feat["catch-var-empty-body"] = true
			return t
		}
		g.push()
		g.declare(t.CatchVar, KMap)
		t.Catch = append([]Node{&Text{S: "<catch:"}, &Print{E: Isset{t.CatchVar}}}, append(g.list(depth+1), &Text{S: ">"})...)
		g.pop()
		g.feat["catch-var"] = true
	}
	return t
}

func (g *gen) includeStmt() []Node {
	if len(g.incFiles) == 0 {
		return nil
	}
	if g.cfg.IncludeLoop && len(g.incFiles) > 1 && g.r.Intn(3) == 0 {
		// the same include action is executed with a different computed name in every iteration
		g.feat["include-loop"] = true
		names := append([]string{}, g.incFiles...)
		g.r.Shuffle(len(names), func(i, j int) { names[i], names[j] = names[j], names[i] })
		lv := g.tok("nl")
		var vals []Value
		pre := []Node{}
		for _, n := range names {
			vals = append(vals, Str(n))
			pre = append(pre, &Let{Names: []string{"iv_" + famKey(n)}, Es: []Expr{Lit{Str(g.tok("iv"))}}})
			g.declare("iv_"+famKey(n), KMap)
		}
		g.p.Vars[lv] = List(FlSliceStr, vals...)
		kv := g.tok("v")
		var nameE Expr = Var{kv}
		if g.r.Intn(2) == 0 {
			// a name computed by concatenation with a part that changes per iteration
			for i := range vals {
				vals[i] = Str(vals[i].S[1:])
			}
			g.p.Vars[lv] = List(FlSliceStr, vals...)
			nameE = Concat{Lit{Str("/")}, Var{kv}}
			g.feat["include-loop-concat"] = true
		}
		rg := &Range{Form: 2, K: g.tok("v"), V: kv, Subj: Var{lv}, Body: []Node{&Text{S: "<incl:"}, &Include{Name: nameE}, &Text{S: ">"}}}
		return append(pre, rg)
	}
	target := g.pick(g.incFiles)
	if g.cfg.IncludeIfExists && g.r.Intn(4) == 0 {
		// includeIfExists: like include when the template exists (names resolve against the root), nothing and false otherwise
		fam := famKey(target)
		e := IncludeIfExists{Name: target}
		if g.r.Intn(3) == 0 {
			e.Name = "/missing/" + g.tok("m") + ".jet"
			g.feat["includeIfExists-missing"] = true
		} else {
			g.feat["includeIfExists-existing"] = true
		}
		if g.cfg.Ctx && g.r.Intn(3) == 0 {
			e.Ctx = g.ctxExpr()
		}
		pre := &Let{Names: []string{"iv_" + fam}, Es: []Expr{Lit{Str(g.tok("iv"))}}}
		g.declare("iv_"+fam, KMap)
		if g.r.Intn(2) == 0 {
			return []Node{pre, &Text{S: "<iie:"}, &Print{E: e}, &Text{S: ">"}, &Text{S: "[?jv_" + fam + "="}, &Print{E: Isset{"jv_" + fam}}, &Text{S: "]"}}
		}
		return []Node{pre, &If{Cond: e, Then: []Node{&Text{S: "<iie-true>"}}, HasElse: true, Else: []Node{&Text{S: "<iie-false>"}}}}
	}
	if g.cfg.ExecNoReturn && g.r.Intn(4) == 0 {
		g.feat["exec-no-return"] = true
		fam := famKey(target)
		e := Exec{Name: target}
		if g.cfg.Ctx && g.r.Intn(3) == 0 {
			e.Ctx = g.ctxExpr()
		}
		pre := &Let{Names: []string{"iv_" + fam}, Es: []Expr{Lit{Str(g.tok("iv"))}}}
		g.declare("iv_"+fam, KMap)
		return []Node{pre, &Text{S: "<exec:"}, &Print{E: e}, &Text{S: ">"}}
	}
	g.feat["include"] = true
	inc := &Include{}
	// spell the name relative to the includer or absolutely
	name := target
	if g.r.Intn(2) == 0 {
		name = relName(g.file.Path, target)
		g.feat["include-relative"] = true
	}
	if g.r.Intn(4) == 0 {
		// computed name
		inc.Name = Opaque{Src: fmt.Sprintf("%q + %q", name[:len(name)/2], name[len(name)/2:]), Val: Str(name)}
		g.feat["include-computed"] = true
	} else {
		inc.Name = Lit{Str(name)}
	}
	if g.cfg.Ctx && g.r.Intn(3) == 0 {
		inc.Ctx = g.ctxExpr()
		g.feat["include-ctx"] = true
	}
	fam := famKey(target)
	out := []Node{&Let{Names: []string{"iv_" + fam}, Es: []Expr{Lit{Str(g.tok("iv"))}}}, &Text{S: "<inc:"}, inc, &Text{S: ">"},
		&Text{S: "[?jv_" + fam + "="}, &Print{E: Isset{"jv_" + fam}}, &Text{S: "]"}}
	g.declare("iv_"+fam, KMap) // KMap: never used as a string source by later statements
	return out
}

func relName(from, to string) string {
	fd := strings.Split(strings.Trim(from, "/"), "/")
	fd = fd[:len(fd)-1]
	td := strings.Split(strings.Trim(to, "/"), "/")
	i := 0
	for i < len(fd) && i < len(td)-1 && fd[i] == td[i] {
		i++
	}
	var parts []string
	for j := i; j < len(fd); j++ {
		parts = append(parts, "..")
	}
	parts = append(parts, td[i:]...)
	return strings.Join(parts, "/")
}

// blockDef generates a definition of b in the current file.
func (g *gen) blockDef(b blockInfo, depth int) *BlockDef {
	g.feat["block-def"] = true
	d := &BlockDef{Name: b.name}
	saveFrames, saveCtx := g.frames, g.ctx
	// a block body sees its parameters, its own declarations and root-level names only
	g.frames = [][]string{g.frames[0], nil}
	for _, p := range b.params {
		q := Param{Name: p.Name, Default: Lit{Str(g.tok("d"))}}
		d.Params = append(d.Params, q)
		g.declare(p.Name, KStr)
	}
	if g.cfg.Ctx && g.r.Intn(4) == 0 {
		d.Ctx = Lit{Str(g.tok("bx"))}
		g.ctx = 1
		g.feat["block-ctx"] = true
	} else {
		g.ctx = -1 // unknown: the yielder's context; do not read '.' unless a range rebinds it
	}
	g.inBlock++
	if b.usesContent {
		g.inCB++
	}
	// a block body only yields blocks that come later in the fixed name order: no recursion whatever definition wins
	saveBlocks := g.blocks
	var later []blockInfo
	for _, o := range g.blocks {
		if blockOrder(o.name) > blockOrder(b.name) {
			later = append(later, o)
		}
	}
	g.blocks = later
	defer func() { g.blocks = saveBlocks }()
	leaveB := g.enter("block")
	defer leaveB()
	if !b.usesContent && g.r.Intn(10) == 0 {
		// an exactly empty definition is a definition like any other (the usual way to blank a region of a layout)
		g.feat["empty-block-body"] = true
		g.inBlock--
		g.frames, g.ctx = saveFrames, saveCtx
		return d
	}
	body := []Node{&Text{S: "(" + g.tok("B") + ":"}}
	for _, p := range b.params {
		body = append(body, &Text{S: p.Name + "="}, &Print{E: Var{p.Name}}, &Text{S: ";"})
	}
	body = append(body, g.list(depth+1)...)
	if b.usesContent {
		if g.cfg.SharedNames && g.r.Intn(2) == 0 {
			sv := g.pick([]string{"sv1", "sv2"})
			body = append(body, &Let{Names: []string{sv}, Es: []Expr{Lit{Str(g.tok("blocklocal"))}}}, &Text{S: "[" + sv + "="}, &Print{E: Var{sv}}, &Text{S: "]"})
			g.feat["shared-name-block"] = true
		}
		body = append(body, &YieldContent{})
		body = append(body, g.list(depth+1)...)
	}
	d.Body = append(body, &Text{S: ")"})
	if b.usesContent {
		g.inCB--
		d.HasContent = true
		g.feat["default-content"] = true
		g.frames = [][]string{g.frames[0], nil}
		g.inContent++
		g.ctx = -2
		d.Content = []Node{&Text{S: "<def:" + g.tok("D") + ">"}}
		if g.r.Intn(6) == 0 {
			d.Content = nil // empty default content
			g.feat["empty-default-content"] = true
		}
		g.inContent--
	}
	g.inBlock--
	g.frames, g.ctx = saveFrames, saveCtx
	return d
}

func blockOrder(name string) int {
	for i, n := range []string{"b1", "b2", "b3", "cb1", "cb2", "ib1", "ib2"} {
		if n == name {
			return i
		}
	}
	return -1
}
