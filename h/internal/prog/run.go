package prog

import (
	"fmt"
	"reflect"
	"sort"
	"strings"

	"github.com/CloudyKit/jet/v6"
	"verifh/internal/hook"
)

// ---------- realisation of model values as Go data ----------

type idxRanger struct {
	items []string
	i     int
}

func (r *idxRanger) Range() (k, v reflect.Value, end bool) {
	if r.i >= len(r.items) {
		r.i = 0 // re-rangeable after completion
		return reflect.Value{}, reflect.Value{}, true
	}
	k, v = reflect.ValueOf(r.i), reflect.ValueOf(r.items[r.i])
	r.i++
	return
}
func (r *idxRanger) ProvidesIndex() bool { return true }

type noIdxRanger struct {
	items []string
	i     int
}

func (r *noIdxRanger) Range() (k, v reflect.Value, end bool) {
	if r.i >= len(r.items) {
		r.i = 0
		return reflect.Value{}, reflect.Value{}, true
	}
	v = reflect.ValueOf(r.items[r.i])
	r.i++
	return
}
func (r *noIdxRanger) ProvidesIndex() bool { return false }

func allStr(vs []Value) bool {
	for _, v := range vs {
		if v.K != KStr {
			return false
		}
	}
	return true
}

func strs(vs []Value) []string {
	s := make([]string, len(vs))
	for i, v := range vs {
		s[i] = v.S
	}
	return s
}

// ToGo realises v as Go data (fresh objects on every call).
func ToGo(v Value) interface{} {
	switch v.K {
	case KBool:
		return v.B
	case KInt:
		return v.I
	case KStr:
		return v.S
	case KMap:
		m := map[string]interface{}{}
		for k, e := range v.M {
			m[k] = ToGo(e)
		}
		return m
	case KList:
		fl := v.Fl
		if !allStr(v.L) && fl != FlSliceIface && fl != FlMapStr {
			fl = FlSliceIface
		}
		switch fl {
		case FlSliceStr:
			return append([]string{}, strs(v.L)...)
		case FlNilSlice:
			return []string(nil)
		case FlSliceIface:
			s := make([]interface{}, len(v.L))
			for i, e := range v.L {
				s[i] = ToGo(e)
			}
			return s
		case FlArray:
			a := reflect.New(reflect.ArrayOf(len(v.L), reflect.TypeOf(""))).Elem()
			for i, e := range v.L {
				a.Index(i).SetString(e.S)
			}
			return a.Interface()
		case FlPtrSlice:
			s := append([]string{}, strs(v.L)...)
			return &s
		case FlChan:
			c := make(chan string, len(v.L)+1)
			for _, e := range v.L {
				c <- e.S
			}
			close(c)
			return c
		case FlRangerIdx:
			return &idxRanger{items: strs(v.L)}
		case FlRangerNoIdx:
			return &noIdxRanger{items: strs(v.L)}
		case FlMapStr:
			m := map[string]string{}
			for i, e := range v.L {
				m[v.Keys[i]] = e.S
			}
			return m
		}
	}
	return nil
}

// Observed is what one execution of the real code produced.
type Observed struct {
	Out       string
	Err       error
	ParseErr  error
	Panic     interface{}
	ProbeLog  []string
	VarsAfter map[string]string // rendered values of the caller's VarMap after Execute
	// StateEvents: snapshots taken by sp(id, "b"|"a") calls, in execution order.
	StateEvents []StateEvent
}

// StateEvent is one interpreter-state snapshot (verif hook VerifProbe).
type StateEvent struct {
	ID    string
	After bool
	Token int
	State hook.State
}

// StateMismatches pairs every "after" snapshot with the "before" snapshot carrying the same token (the token is
// returned by the before-probe, kept in a template variable and passed to the after-probe, so re-entered
// constructs and constructs that failed in between cannot be confused) and describes every pair that differs.
func (o Observed) StateMismatches() []string {
	before := map[int]StateEvent{}
	var out []string
	for _, e := range o.StateEvents {
		if !e.After {
			before[e.Token] = e
			continue
		}
		b, ok := before[e.Token]
		if !ok {
			continue
		}
		delete(before, e.Token)
		if b.State != e.State {
			out = append(out, fmt.Sprintf("%s: before %+v, after %+v", e.ID, b.State, e.State))
		}
	}
	return out
}

// RunOpts configures a real execution.
type RunOpts struct {
	Opts    []jet.Option
	Newline bool
	// ExtraVars are added to the VarMap (functions etc.), not visible to the model.
	ExtraVars map[string]interface{}
	// Writer, if set, receives the output instead of an internal buffer.
	Set *jet.Set // reuse an existing set (sources must already be loaded)
}

// NewSet loads the program's sources into a fresh Set.
func (p *Program) NewSet(newline bool, opts ...jet.Option) *jet.Set {
	l := jet.NewInMemLoader()
	p.Newline = newline
	src := p.Sources(newline)
	keys := make([]string, 0, len(src))
	for k := range src {
		keys = append(keys, k)
	}
	sort.Strings(keys)
	for _, k := range keys {
		l.Set(k, src[k])
	}
	s := jet.NewSet(l, opts...)
	for k, v := range p.Globals {
		s.AddGlobal(k, ToGo(v))
	}
	return s
}

// Run executes the program with the real jet.
func (p *Program) Run(o RunOpts) (obs Observed) {
	set := o.Set
	if set == nil {
		set = p.NewSet(o.Newline, o.Opts...)
	}
	vars := jet.VarMap{}
	for k, v := range p.Vars {
		vars.Set(k, ToGo(v))
	}
	var log []string
	vars.Set("probe", func(id string, args ...interface{}) string {
		e := id
		if len(args) > 0 {
			e += "(" + fmt.Sprint(args[0]) + ")"
		}
		log = append(log, e)
		return "‹" + id + "›"
	})
	vars.Set("panicstr", func() string { panic("a plain string as panic value") })
	vars.Set("panicval", func() string { panic(panicValue{}) })
	ntok := 0
	vars.SetFunc("sp", func(a jet.Arguments) reflect.Value {
		id, kind := fmt.Sprint(a.Get(0).Interface()), fmt.Sprint(a.Get(1).Interface())
		ev := StateEvent{ID: id, After: kind == "a", State: hook.Probe(a.Runtime())}
		if ev.After {
			if t := a.Get(2); t.IsValid() && t.Kind() == reflect.Int {
				ev.Token = int(t.Int())
			} else {
				ev.Token = -1
			}
			obs.StateEvents = append(obs.StateEvents, ev)
			return reflect.ValueOf("")
		}
		ntok++
		ev.Token = ntok
		obs.StateEvents = append(obs.StateEvents, ev)
		return reflect.ValueOf(ntok)
	})
	for k, v := range o.ExtraVars {
		vars.Set(k, v)
	}
	nExtra := len(o.ExtraVars) + 1
	defer func() {
		if r := recover(); r != nil {
			obs.Panic = r
		}
		obs.ProbeLog = log
		obs.VarsAfter = map[string]string{}
		for k, v := range vars {
			if k == "probe" || k == "sp" || k == "panicstr" || k == "panicval" {
				continue
			}
			if _, extra := o.ExtraVars[k]; extra {
				continue
			}
			if v.IsValid() && v.CanInterface() {
				obs.VarsAfter[k] = renderGo(v.Interface())
			} else {
				obs.VarsAfter[k] = ""
			}
		}
		_ = nExtra
	}()
	t, err := set.GetTemplate(p.Main)
	if err != nil {
		obs.ParseErr = err
		return
	}
	var b strings.Builder
	var data interface{}
	if p.HasData {
		data = ToGo(p.Data)
	}
	obs.Err = t.Execute(&b, vars, data)
	obs.Out = b.String()
	return
}

// panicValue is a panic value that is neither an error nor a string.
type panicValue struct{}

func (panicValue) String() string { return "a Stringer as panic value" }

func renderGo(x interface{}) string {
	switch x := x.(type) {
	case nil:
		return ""
	case string:
		return x
	case float64, bool:
		return fmt.Sprint(x)
	}
	switch reflect.ValueOf(x).Kind() {
	case reflect.Int, reflect.Int8, reflect.Int16, reflect.Int32, reflect.Int64, reflect.Uint, reflect.Uint8, reflect.Uint16, reflect.Uint32, reflect.Uint64:
		return fmt.Sprint(x)
	}
	return "<composite>"
}

// Compare checks an observation against the model result. It returns "" when they agree,
// else a short class and a detail text. newline: compare modulo "\n".
func Compare(model Result, obs Observed, newline bool) (class, detail string) {
	strip := func(s string) string {
		if newline {
			return strings.ReplaceAll(s, "\n", "")
		}
		return s
	}
	switch {
	case obs.Panic != nil:
		return "panic", fmt.Sprintf("panic escaped: %v", obs.Panic)
	case obs.ParseErr != nil:
		return "parse-error", obs.ParseErr.Error()
	case model.Err == nil && obs.Err != nil:
		return "unexpected-error", fmt.Sprintf("model: success with output %q; real: error %v after output %q", model.Out, obs.Err, obs.Out)
	case model.Err != nil && obs.Err == nil:
		return "missing-error", fmt.Sprintf("model: failure %v; real: success with output %q", model.Err, obs.Out)
	case strip(model.Out) != strip(obs.Out):
		return "output", fmt.Sprintf("model output %q\n real output %q", strip(model.Out), strip(obs.Out))
	case fmt.Sprint(model.ProbeLog) != fmt.Sprint(obs.ProbeLog):
		return "probe-log", fmt.Sprintf("model calls %v\n real calls %v", model.ProbeLog, obs.ProbeLog)
	}
	// caller's VarMap: same keys, same values
	var mk, ok []string
	for k, v := range model.VarsAfter {
		if v.K == KList || v.K == KMap {
			mk = append(mk, k+"=<composite>")
		} else {
			mk = append(mk, k+"="+v.Render())
		}
	}
	for k, v := range obs.VarsAfter {
		ok = append(ok, k+"="+v)
	}
	sort.Strings(mk)
	sort.Strings(ok)
	if fmt.Sprint(mk) != fmt.Sprint(ok) {
		return "varmap-after", fmt.Sprintf("model VarMap after %v\n real VarMap after %v", mk, ok)
	}
	return "", ""
}
