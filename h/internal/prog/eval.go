package prog

import (
	"fmt"
	"path"
	"strings"
)

// ---------- reference evaluator ----------

// Failure is the model's notion of an evaluation error.
type Failure struct {
	File string
	Line int
	Msg  string
	// Positioned: the error is one jet detects itself, so its message must name File and Line.
	Positioned bool
}

func (f *Failure) Error() string { return fmt.Sprintf("%s:%d: %s", f.File, f.Line, f.Msg) }

type scope struct {
	vars   map[string]Value
	parent *scope
	blocks map[string]*BlockDef // nil: none at this level
}

type contentClosure struct {
	nodes []Node
	sc    *scope
	prev  *contentClosure
}

// Result of the reference evaluation.
type Result struct {
	Out      string
	Err      *Failure
	ProbeLog []string
	// VarsAfter: the caller's VarMap after execution (assignments with '=' reach it; no new keys may appear).
	VarsAfter map[string]Value
	// Unspecified is set when the program left the fragment the model is sure about.
	Unspecified string
}

type evaluator struct {
	p        *Program
	tables   map[string]map[string]*BlockDef
	out      strings.Builder
	outStack []*strings.Builder
	sc       *scope
	ctx      Value
	content  *contentClosure
	probes   []string
	unspec   string
	depth    int
	discard  int
	esc      func(string) string            // the Set's escaper (nil: none)
	writers  map[string]func(string) string // SafeWriters by name
}

// wv writes a rendered value: through the named SafeWriter, else through the Set's escaper.
func (ev *evaluator) wv(s, writer string) {
	if writer != "" {
		if f := ev.writers[writer]; f != nil {
			s = f(s)
		}
	} else if ev.esc != nil {
		s = ev.esc(s)
	}
	ev.w(s)
}

func (ev *evaluator) w(s string) {
	if ev.discard > 0 {
		return
	}
	if n := len(ev.outStack); n > 0 {
		ev.outStack[n-1].WriteString(s)
		return
	}
	ev.out.WriteString(s)
}

// Resolve a template name as a Set does: relative names against the directory of referrer
// (or the root when referrer is ""), then the configured extensions (only the default list here).
func (p *Program) Resolve(name, referrer string) *File {
	if !strings.HasPrefix(name, "/") {
		dir := "/"
		if referrer != "" {
			dir = path.Dir(referrer)
		}
		name = path.Join(dir, name)
	} else {
		name = path.Clean(name)
	}
	for _, ext := range []string{"", ".jet", ".html.jet", ".jet.html"} {
		if f := p.File(name + ext); f != nil {
			return f
		}
	}
	return nil
}

func collectBlocks(ns []Node, into map[string]*BlockDef) {
	for _, n := range ns {
		switch n := n.(type) {
		case *BlockDef:
			// parse order: a block is registered when its {{end}} is reached, i.e. after the blocks nested in it
			collectBlocks(n.Body, into)
			collectBlocks(n.Content, into)
			into[n.Name] = n
		case *If:
			collectBlocks(n.Then, into)
			collectBlocks(n.Else, into)
		case *Range:
			collectBlocks(n.Body, into)
			collectBlocks(n.Else, into)
		case *Yield:
			collectBlocks(n.Content, into)
		case *Try:
			collectBlocks(n.Body, into)
			collectBlocks(n.Catch, into)
		}
	}
}

// table computes the effective block table of a file: extended chain < imports in order < own.
func (ev *evaluator) table(f *File) map[string]*BlockDef {
	if t, ok := ev.tables[f.Path]; ok {
		return t
	}
	t := map[string]*BlockDef{}
	ev.tables[f.Path] = t
	if f.Extends != "" {
		if e := ev.p.Resolve(f.Extends, f.Path); e != nil {
			for k, v := range ev.table(e) {
				t[k] = v
			}
		}
	}
	for _, im := range f.Imports {
		if e := ev.p.Resolve(im, f.Path); e != nil {
			for k, v := range ev.table(e) {
				t[k] = v
			}
		}
	}
	own := map[string]*BlockDef{}
	collectBlocks(f.Body, own)
	for k, v := range own {
		t[k] = v
	}
	return t
}

func (ev *evaluator) rootOf(f *File) *File {
	for f.Extends != "" {
		e := ev.p.Resolve(f.Extends, f.Path)
		if e == nil {
			return f
		}
		f = e
	}
	return f
}

func (ev *evaluator) push() { ev.sc = &scope{vars: map[string]Value{}, parent: ev.sc} }
func (ev *evaluator) pop()  { ev.sc = ev.sc.parent }

func (ev *evaluator) lookup(name string) (Value, bool) {
	for s := ev.sc; s != nil; s = s.parent {
		if v, ok := s.vars[name]; ok {
			return v, true
		}
	}
	if v, ok := ev.p.Globals[name]; ok {
		return v, true
	}
	return Value{}, false
}

func (ev *evaluator) block(name string) *BlockDef {
	for s := ev.sc; s != nil; s = s.parent {
		if b, ok := s.blocks[name]; ok {
			return b
		}
	}
	return nil
}

func (ev *evaluator) fail(n interface{ Pos() (string, int) }, positioned bool, format string, a ...interface{}) {
	f, l := n.Pos()
	panic(&Failure{File: f, Line: l, Msg: fmt.Sprintf(format, a...), Positioned: positioned})
}

func (ev *evaluator) eval(e Expr, at interface{ Pos() (string, int) }) Value {
	switch e := e.(type) {
	case Lit:
		return e.V
	case Var:
		v, ok := ev.lookup(e.Name)
		if !ok {
			ev.fail(at, true, "unknown identifier %s", e.Name)
		}
		return v
	case Dot:
		return ev.ctx
	case DotField:
		if ev.ctx.K != KMap {
			ev.fail(at, true, "no field %s in context", e.Name)
		}
		v, ok := ev.ctx.M[e.Name]
		if !ok {
			ev.unspec = "absent key through context field access"
		}
		return v
	case VarField:
		b, ok := ev.lookup(e.Var)
		if !ok {
			ev.fail(at, true, "unknown identifier %s", e.Var)
		}
		if b.K != KMap {
			ev.fail(at, true, "no field %s", e.Name)
		}
		return b.M[e.Name]
	case Isset:
		v, ok := ev.lookup(e.Name)
		return Bool(ok && !v.IsNil())
	case Probe:
		ev.probes = append(ev.probes, e.ID)
		if e.Arg != nil {
			a := ev.eval(e.Arg, at)
			ev.probes[len(ev.probes)-1] += "(" + a.Render() + ")"
		}
		return Str("‹" + e.ID + "›")
	case Eq:
		a, b := ev.eval(e.A, at), ev.eval(e.B, at)
		return Bool(a.K == b.K && a.Render() == b.Render())
	case Concat:
		a, b := ev.eval(e.A, at), ev.eval(e.B, at)
		return Str(a.Render() + b.Render())
	case Opaque:
		if e.Fails {
			ev.fail(at, true, "opaque failing expression %s", e.Src)
		}
		return e.Val
	case Exec:
		return ev.exec(e, at)
	case IssetChain:
		func() {
			sc, ctx, content := ev.sc, ev.ctx, ev.content
			defer func() {
				if r := recover(); r != nil {
					if _, ok := r.(*Failure); !ok {
						panic(r)
					}
					ev.sc, ev.ctx, ev.content = sc, ctx, content
				}
			}()
			ev.eval(e.E, at)
		}()
		return Bool(false)
	case IncludeIfExists:
		f := ev.p.Resolve(e.Name, "")
		if f == nil {
			return Value{K: KBool, B: false, S: "hidden"}
		}
		ev.runTemplate(f, e.Ctx, at, false)
		return Value{K: KBool, B: true, S: "hidden"}
	}
	panic(fmt.Sprintf("prog: cannot evaluate %T", e))
}

// runTemplate executes f's root ancestor in a fresh scope carrying f's block table
// (include / includeIfExists / exec semantics).
func (ev *evaluator) runTemplate(f *File, ctxE Expr, at interface{ Pos() (string, int) }, discard bool) {
	ev.depth++
	if ev.depth > 40 {
		ev.unspec = "recursion too deep"
		panic(&Failure{Msg: "recursion too deep"})
	}
	saveSc, saveCtx := ev.sc, ev.ctx
	ev.sc = &scope{vars: map[string]Value{}, parent: ev.sc, blocks: ev.table(f)}
	if ctxE != nil {
		ev.ctx = ev.eval(ctxE, at)
	}
	if discard {
		ev.discard++
	}
	defer func() {
		if discard {
			ev.discard--
		}
		ev.sc, ev.ctx = saveSc, saveCtx
		ev.depth--
	}()
	ev.list(ev.rootOf(f).Body)
}

func (ev *evaluator) exec(e Exec, at interface{ Pos() (string, int) }) Value {
	f := ev.p.Resolve(e.Name, "")
	if f == nil {
		// raised inside the exec built-in
		ff, l := at.Pos()
		panic(&Failure{File: ff, Line: l, Msg: "exec: template not found", Positioned: false})
	}
	if hasReturn(ev.rootOf(f).Body) {
		// which return runs last is decided from the observed probe log, not by the model
		ev.unspec = "exec of a template containing return"
	}
	ev.runTemplate(f, e.Ctx, at, true)
	return Nil()
}
