package prog

import (
	"fmt"
	"math/rand"
	"sort"
)

// Gen generates a program. The second result lists the features it uses.
func Gen(r *rand.Rand, cfg Cfg) (*Program, []string) {
	g := &gen{r: r, cfg: cfg, kinds: map[string]Kind{}, listFl: map[string]Flavor{}, feat: map[string]bool{}, chanUsed: map[string]bool{}}
	p := &Program{Vars: map[string]Value{}, Globals: map[string]Value{}}
	g.p = p
	// root-level names: VarMap variables, globals, and names that collide across the levels
	p.Vars["u1"] = Str("U1")
	p.Vars["u2"] = Str("U2")
	p.Vars["w1"] = Str("V-w1")       // also a global: the VarMap wins
	p.Vars["lower"] = Str("V-lower") // also a built-in: the VarMap wins
	p.Globals["g1"] = Str("G1")
	p.Globals["w1"] = Str("G-w1")
	p.Globals["upper"] = Str("G-upper") // also a built-in: the global wins
	root := []string{"u1", "u2", "w1", "lower", "g1", "upper"}
	for _, n := range root {
		g.kinds[n] = KStr
	}
	// lists of every flavour, some empty
	if cfg.Ranges {
		nl := 3 + r.Intn(3)
		for i := 0; i < nl; i++ {
			name := fmt.Sprintf("l%d", i+1)
			fl := Flavor(r.Intn(int(nFlavors)))
			if fl == FlInts {
				fl = FlSliceStr
			}
			n := r.Intn(4)
			if r.Intn(4) == 0 {
				n = 0
			}
			if fl == FlMapStr && n > 1 {
				n = 1 // map iteration order is random: single-entry maps only
			}
			if fl == FlNilSlice {
				n = 0
			}
			v := Value{K: KList, Fl: fl}
			for j := 0; j < n; j++ {
				e := Str(g.tok("e"))
				if fl == FlSliceIface && r.Intn(3) == 0 {
					e = Int(r.Intn(9))
				}
				v.L = append(v.L, e)
				if fl == FlMapStr {
					v.Keys = append(v.Keys, g.tok("k"))
				}
			}
			p.Vars[name] = v
			g.lists = append(g.lists, name)
			g.listFl[name] = fl
			g.kinds[name] = KList
			root = append(root, name)
		}
	}
	// context
	switch r.Intn(3) {
	case 0:
		g.ctx = 0
	case 1:
		p.HasData, p.Data, g.ctx = true, Str(g.tok("ctx")), 1
	case 2:
		items := List(FlSliceStr, Str(g.tok("i")), Str(g.tok("i")))
		if r.Intn(3) == 0 {
			items = List(FlSliceStr)
		}
		p.HasData, p.Data, g.ctx = true, Rec(map[string]Value{"name": Str(g.tok("n")), "items": items}), 2
	}
	g.frames = [][]string{root}

	// ----- file layout -----
	pool := []blockInfo{}
	if cfg.Blocks {
		for i := 1; i <= 3; i++ {
			b := blockInfo{name: fmt.Sprintf("b%d", i)}
			for j := r.Intn(3); j > 0; j-- {
				b.params = append(b.params, Param{Name: fmt.Sprintf("p_b%d_%d", i, j)})
			}
			pool = append(pool, b)
		}
		for i := 1; i <= 2; i++ {
			b := blockInfo{name: fmt.Sprintf("cb%d", i), usesContent: true}
			for j := r.Intn(2); j > 0; j-- {
				b.params = append(b.params, Param{Name: fmt.Sprintf("p_cb%d_%d", i, j)})
			}
			pool = append(pool, b)
		}
	}
	type plan struct {
		f      *File
		defs   []blockInfo
		runs   bool // its body is executed (root ancestor / include target root)
		family []blockInfo
	}
	var plans []*plan
	mk := func(path string) *plan {
		pl := &plan{f: &File{Path: path}}
		plans = append(plans, pl)
		p.Files = append(p.Files, pl.f)
		return pl
	}
	subset := func(from []blockInfo, prob int) []blockInfo {
		var out []blockInfo
		for _, b := range from {
			if r.Intn(prob) == 0 {
				out = append(out, b)
			}
		}
		return out
	}
	main := mk("/main.jet")
	p.Main = "/main.jet"
	chain := []*plan{main}
	var libs []*plan
	if cfg.MultiFile {
		depth := r.Intn(4)
		names := []string{"/layouts/mid.jet", "/layouts/deep/base.jet", "/root.jet"}
		for i := 0; i < depth && i < len(names); i++ {
			pl := mk(names[i])
			chain[len(chain)-1].f.Extends = relOrAbs(r, chain[len(chain)-1].f.Path, pl.f.Path)
			chain = append(chain, pl)
			g.feat["extends"] = true
		}
		// imports: each level of the chain may import libs; libs may import or extend further libs
		nlib := r.Intn(4)
		for i := 0; i < nlib; i++ {
			libs = append(libs, mk(fmt.Sprintf("/lib/l%d.jet", i+1)))
		}
		for i, l := range libs {
			for j := i + 1; j < len(libs); j++ {
				if r.Intn(3) == 0 {
					if r.Intn(3) == 0 && l.f.Extends == "" {
						l.f.Extends = relOrAbs(r, l.f.Path, libs[j].f.Path)
						g.feat["lib-extends"] = true
					} else {
						l.f.Imports = append(l.f.Imports, relOrAbs(r, l.f.Path, libs[j].f.Path))
						g.feat["lib-imports"] = true
					}
				}
			}
		}
		for _, c := range chain {
			for _, l := range libs {
				if r.Intn(3) == 0 {
					c.f.Imports = append(c.f.Imports, relOrAbs(r, c.f.Path, l.f.Path))
					g.feat["import"] = true
				}
			}
			if len(c.f.Imports) >= 2 && r.Intn(5) == 0 {
				// the first library imported once more at the end: later imports win, so it regains precedence
				c.f.Imports = append(c.f.Imports, c.f.Imports[0])
				g.feat["import-repeated"] = true
			}
		}
	}
	chain[len(chain)-1].runs = true
	for _, pl := range plans {
		pl.defs = subset(pool, 2)
	}
	// include targets (their own family of block names)
	var incs []*plan
	if cfg.Includes || cfg.IncludeIfExists || cfg.ExecNoReturn {
		ipool := []blockInfo{{name: "ib1"}, {name: "ib2", params: []Param{{Name: "p_ib2_1"}}}}
		if !cfg.Blocks {
			ipool = nil
		}
		paths := []string{"/inc/t1.jet", "/inc/sub/t2.jet", "/t3.jet"}
		if r.Intn(2) == 0 {
			// the same base name in two directories: "t3.jet" spelt relative to /inc/t1.jet is not /t3.jet
			paths = []string{"/inc/t1.jet", "/t3.jet", "/inc/t3.jet"}
			if r.Intn(2) == 0 {
				paths = []string{"/inc/t1.jet", "/inc/t3.jet", "/t3.jet"}
			}
		}
		for i := 0; i < 1+r.Intn(3); i++ {
			pl := mk(paths[i])
			pl.defs = subset(ipool, 2)
			pl.family = ipool
			pl.runs = true
			incs = append(incs, pl)
			if cfg.MultiFile && r.Intn(3) == 0 {
				b := mk(fmt.Sprintf("/inc/base%d.jet", i+1))
				b.defs = subset(ipool, 2)
				b.family = ipool
				b.runs = true
				pl.runs = false
				pl.f.Extends = relOrAbs(r, pl.f.Path, b.f.Path)
				g.feat["include-target-extends"] = true
			}
		}
	}
	// names defined in the effective table of main (computed on skeleton files holding only the defs)
	for _, pl := range plans {
		for _, b := range pl.defs {
			pl.f.Body = append(pl.f.Body, &BlockDef{Name: b.name})
		}
	}
	ev := &evaluator{p: p, tables: map[string]map[string]*BlockDef{}}
	defined := func(f *File, from []blockInfo) []blockInfo {
		t := ev.table(f)
		var out []blockInfo
		for _, b := range from {
			if _, ok := t[b.name]; ok {
				out = append(out, b)
			}
		}
		return out
	}
	mainBlocks := defined(main.f, pool)
	incBlocks := map[string][]blockInfo{}
	for _, pl := range incs {
		incBlocks[pl.f.Path] = defined(pl.f, pl.family)
	}
	for _, pl := range plans {
		pl.f.Body = nil
	}
	// ----- bodies -----
	isInc := func(pl *plan) (string, bool) {
		for _, in := range incs {
			if in == pl {
				return in.f.Path, true
			}
			if in.f.Extends != "" && p.Resolve(in.f.Extends, in.f.Path) == pl.f {
				return in.f.Path, true
			}
		}
		return "", false
	}
	for pi, pl := range plans {
		g.file = pl.f
		g.mainRoot = pl == chain[len(chain)-1]
		kind := "imported"
		switch {
		case g.mainRoot && len(chain) > 1:
			kind = "extended-root"
		case g.mainRoot:
			kind = "main"
		case indexOf(chain, pl) >= 0:
			kind = "extending"
		}
		if _, inc := isInc(pl); inc {
			kind = "included"
		}
		g.where = []string{kind}
		g.frames = [][]string{root}
		g.blocks = mainBlocks
		incPath, inFamily := isInc(pl)
		if inFamily {
			g.blocks = append(append([]blockInfo{}, mainBlocks...), incBlocks[incPath]...)
			g.incDepth = 1
		} else {
			g.incDepth = 0
		}
		// include targets reachable from this file: only later include targets (acyclic)
		g.incFiles = nil
		for _, in := range incs {
			ii := indexOf(plans, in)
			if !inFamily || ii > pi {
				if in.f != pl.f && (!inFamily || incPath != in.f.Path) {
					g.incFiles = append(g.incFiles, in.f.Path)
				}
			}
		}
		saveCtx := g.ctx
		if inFamily {
			g.ctx = -1
		}
		g.push()
		var body []Node
		if pl.runs {
			body = append(body, &Text{S: "«" + g.tok("F") + ":"})
			if inFamily {
				// the includer's variable declared right before every include of this family
				iv := "iv_" + famKey(incPath)
				body = append(body, &Text{S: "[" + iv + "="}, &Print{E: Var{iv}}, &Text{S: "]"})
				jv := "jv_" + famKey(incPath)
				body = append(body, &Let{Names: []string{jv}, Es: []Expr{Lit{Str(g.tok("j"))}}})
				g.declare(jv, KStr)
			}
		}
		defs := append([]blockInfo{}, pl.defs...)
		r.Shuffle(len(defs), func(i, j int) { defs[i], defs[j] = defs[j], defs[i] })
		for _, b := range defs {
			if pl.runs {
				body = append(body, g.list(0)...)
			} else {
				body = append(body, g.text())
			}
			body = append(body, g.blockDef(b, 1))
		}
		if pl.runs {
			body = append(body, g.list(0)...)
			body = append(body, g.list(0)...)
			body = append(body, &Text{S: "»"})
		} else {
			body = append(body, g.text())
		}
		g.pop()
		g.ctx = saveCtx
		pl.f.Body = body
	}
	if g.feat["isset-swallows-failing-exec"] {
		p.Files = append(p.Files, &File{Path: "/swf.jet", Body: []Node{&Text{S: "sw"}, &RawFail{Src: "{{ nosuchvarq.x }}", Positioned: true}, &Text{S: "never"}}})
	}
	var feats []string
	for k := range g.feat {
		feats = append(feats, k)
	}
	sort.Strings(feats)
	return p, feats
}

func famKey(path string) string {
	k := ""
	for _, c := range path {
		if (c >= 'a' && c <= 'z') || (c >= '0' && c <= '9') {
			k += string(c)
		}
	}
	return k
}

func indexOf[T comparable](s []T, x T) int {
	for i, e := range s {
		if e == x {
			return i
		}
	}
	return -1
}

func relOrAbs(r *rand.Rand, from, to string) string {
	if r.Intn(2) == 0 {
		return relName(from, to)
	}
	return to
}
