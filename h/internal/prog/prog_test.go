package prog

import (
	"fmt"
	"math/rand"
	"os"
	"strconv"
	"testing"

	"github.com/CloudyKit/jet/v6"
)

func TestModelAgreement(t *testing.T) {
	n := 3000
	if s := os.Getenv("PROG_N"); s != "" {
		n, _ = strconv.Atoi(s)
	}
	cfg := Cfg{Items: 3, MaxDepth: 3, Ifs: true, Ranges: true, Vars: true, Blocks: true, MultiFile: true, Includes: true, Try: true, Fails: true, Ctx: true, CondKinds: true, RangeErrs: true, IssetSwallow: true, IncludeIfExists: true, ExecNoReturn: true, PanicFuncs: true}
	bad := 0
	classes := map[string]int{}
	unspec := 0
	for i := 0; i < n; i++ {
		r := rand.New(rand.NewSource(int64(i)))
		p, _ := Gen(r, cfg)
		m := Eval(p)
		if m.Unspecified != "" {
			unspec++
			continue
		}
		o := p.Run(RunOpts{Opts: []jet.Option{jet.WithSafeWriter(nil)}})
		if c, d := Compare(m, o, false); c != "" {
			classes[c]++
			bad++
			if bad <= 3 {
				t.Errorf("seed %d: %s\n%s", i, c, d)
				if bad == 1 {
					for k, v := range p.Sources(false) {
						fmt.Printf("---- %s\n%s\n", k, v)
					}
				}
			}
		}
	}
	t.Logf("n=%d mismatches=%d classes=%v unspecified=%d", n, bad, classes, unspec)
}

func TestFindSmall(t *testing.T) {
	if os.Getenv("PROG_SMALL") == "" {
		t.Skip()
	}
	cfg := Cfg{Items: 3, MaxDepth: 3, Ifs: true, Ranges: true, Vars: true, Blocks: true, MultiFile: true, Includes: true, Try: true, Fails: true, Ctx: true, CondKinds: true, RangeErrs: true, IssetSwallow: true, IncludeIfExists: true, ExecNoReturn: true, PanicFuncs: true}
	best := map[string]string{}
	for i := 0; i < 20000; i++ {
		r := rand.New(rand.NewSource(int64(i)))
		p, _ := Gen(r, cfg)
		m := Eval(p)
		if m.Unspecified != "" {
			continue
		}
		o := p.Run(RunOpts{Opts: []jet.Option{jet.WithSafeWriter(nil)}})
		if c, d := Compare(m, o, false); c != "" {
			s := fmt.Sprintf("seed %d class %s\n%s\n", i, c, d)
			for k, v := range p.Sources(false) {
				s += fmt.Sprintf("---- %s\n%s\n", k, v)
			}
			s += fmt.Sprintf("data=%v hasdata=%v modelErr=%v realErr=%v\n", p.Data.Render(), p.HasData, m.Err, o.Err)
			if b, ok := best[c]; !ok || len(s) < len(b) {
				best[c] = s
			}
		}
	}
	for c, s := range best {
		fmt.Printf("======== %s\n%s\n", c, s)
	}
}

func TestSeed(t *testing.T) {
	s := os.Getenv("PROG_SEED")
	if s == "" {
		t.Skip()
	}
	seed, _ := strconv.Atoi(s)
	cfg := Cfg{Items: 3, MaxDepth: 3, Ifs: true, Ranges: true, Vars: true, Blocks: true, MultiFile: true, Includes: true, Try: true, Fails: true, Ctx: true, CondKinds: true, RangeErrs: true, IssetSwallow: true, IncludeIfExists: true, ExecNoReturn: true, PanicFuncs: true}
	p, _ := Gen(rand.New(rand.NewSource(int64(seed))), cfg)
	set := p.NewSet(false, jet.WithSafeWriter(nil))
	tt, err := set.GetTemplate(p.Main)
	if err != nil {
		t.Fatal(err)
	}
	vars := jet.VarMap{}
	for k, v := range p.Vars {
		vars.Set(k, ToGo(v))
	}
	vars.Set("probe", func(id string, args ...interface{}) string { return id })
	var data interface{}
	if p.HasData {
		data = ToGo(p.Data)
	}
	err = tt.Execute(os.Stdout, vars, data)
	fmt.Println("\nERR", err)
}

// TestEntriesAgreement: every file of a generated program executed as the entry point (fresh Set each).
func TestEntriesAgreement(t *testing.T) {
	n := 2000
	if s := os.Getenv("PROG_N"); s != "" {
		n, _ = strconv.Atoi(s)
	}
	cfg := Cfg{Items: 3, MaxDepth: 3, Ifs: true, Ranges: true, Vars: true, Blocks: true, MultiFile: true, Includes: true, Try: true, Fails: true, Ctx: true, CondKinds: true, RangeErrs: true, IssetSwallow: true, IncludeIfExists: true, ExecNoReturn: true, PanicFuncs: true}
	bad, unspec, runs := 0, 0, 0
	classes := map[string]int{}
	for i := 0; i < n; i++ {
		r := rand.New(rand.NewSource(int64(i)))
		p, _ := Gen(r, cfg)
		for _, f := range p.Files {
			q := *p
			q.Main = f.Path
			m := Eval(&q)
			if m.Unspecified != "" {
				unspec++
				continue
			}
			runs++
			o := q.Run(RunOpts{Opts: []jet.Option{jet.WithSafeWriter(nil)}})
			if c, d := Compare(m, o, false); c != "" {
				classes[c]++
				bad++
				if bad <= 4 {
					t.Errorf("seed %d entry %s: %s\n%s", i, f.Path, c, d)
					for k, v := range p.Sources(false) {
						fmt.Printf("---- %s\n%s\n", k, v)
					}
				}
			}
		}
	}
	t.Logf("n=%d runs=%d mismatches=%d classes=%v unspecified=%d", n, runs, bad, classes, unspec)
}
