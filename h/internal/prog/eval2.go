package prog

import (
	"fmt"
	"strings"
)

func hasReturn(ns []Node) bool {
	for _, n := range ns {
		switch n := n.(type) {
		case *Return:
			return true
		case *If:
			if hasReturn(n.Then) || hasReturn(n.Else) {
				return true
			}
		case *Range:
			if hasReturn(n.Body) || hasReturn(n.Else) {
				return true
			}
		case *Try:
			if hasReturn(n.Body) || hasReturn(n.Catch) {
				return true
			}
		case *BlockDef:
			if hasReturn(n.Body) || hasReturn(n.Content) {
				return true
			}
		case *Yield:
			if hasReturn(n.Content) {
				return true
			}
		}
	}
	return false
}

// list executes a statement list; a scope is opened at the first ':=' and closed at the end of the list.
func (ev *evaluator) list(ns []Node) {
	opened := false
	defer func() {
		if opened {
			ev.pop()
		}
	}()
	for _, n := range ns {
		switch n := n.(type) {
		case *Text:
			ev.w(n.S)
		case *Comment:
		case *Print:
			v := ev.eval(n.E, n)
			if !(v.K == KBool && v.S == "hidden") {
				ev.wv(v.Render(), n.Writer)
			}
		case *Let:
			if !opened {
				ev.push()
				opened = true
			}
			for i, name := range n.Names {
				v := ev.eval(n.Es[i], n)
				if name != "_" {
					ev.sc.vars[name] = v
				}
			}
		case *Set:
			for i, name := range n.Names {
				v := ev.eval(n.Es[i], n)
				if name != "_" {
					ev.assign(name, v, n)
				}
			}
		case *If:
			ev.ifStmt(n)
		case *Range:
			ev.rangeStmt(n)
		case *BlockDef:
			b := ev.block(n.Name)
			if b == nil {
				b = n
			}
			for _, p := range b.Params {
				if p.Default == nil {
					ev.fail(n, true, "block parameter %s without default at a definition site", p.Name)
				}
			}
			ev.yieldBlock(b, nil, b.Ctx, b.Content, b.HasContent, n)
		case *Yield:
			b := ev.block(n.Name)
			if b == nil {
				ev.fail(n, true, "unresolved block %s", n.Name)
			}
			ev.yieldBlock(b, n.Args, n.Ctx, n.Content, n.HasContent, n)
		case *YieldContent:
			ev.yieldContent(n)
		case *Include:
			nameV := ev.eval(n.Name, n)
			if nameV.K != KStr {
				ev.fail(n, true, "include name is not a string")
			}
			f := ev.p.Resolve(nameV.S, n.File)
			if f == nil {
				ev.fail(n, true, "template %s not found", nameV.S)
			}
			ev.runTemplate(f, n.Ctx, n, false)
		case *Try:
			ev.try(n)
		case *RawFail:
			ev.fail(n, n.Positioned, "raw failing statement %s", n.Src)
		case *Return:
			ev.eval(n.E, n)
			if ev.discard == 0 {
				ev.unspec = "return outside exec"
			}
		default:
			panic(fmt.Sprintf("prog: cannot execute %T", n))
		}
	}
}

func (ev *evaluator) assign(name string, v Value, at interface{ Pos() (string, int) }) {
	for s := ev.sc; s != nil; s = s.parent {
		if _, ok := s.vars[name]; ok {
			s.vars[name] = v
			return
		}
	}
	ev.fail(at, true, "assignment to undeclared variable %s", name)
}

func (ev *evaluator) ifStmt(n *If) {
	if n.LetName != "" {
		ev.push()
		defer ev.pop()
		v := ev.eval(n.LetE, n)
		if n.LetName != "_" {
			ev.sc.vars[n.LetName] = v
		}
	}
	if ev.eval(n.Cond, n).Truthy() {
		ev.list(n.Then)
	} else if n.HasElse {
		ev.list(n.Else)
	}
}

type entry struct{ k, v Value }

// elements lists what a range over v iterates, and whether the ranger provides an index.
func elements(v Value) (es []entry, providesIndex bool, ok bool) {
	if v.K != KList {
		return nil, false, false
	}
	switch v.Fl {
	case FlMapStr:
		for i, e := range v.L {
			es = append(es, entry{Str(v.Keys[i]), e})
		}
		return es, true, true
	case FlChan, FlRangerNoIdx:
		for _, e := range v.L {
			es = append(es, entry{Nil(), e})
		}
		return es, false, true
	}
	for i, e := range v.L {
		es = append(es, entry{Int(i), e})
	}
	return es, true, true
}

func (ev *evaluator) rangeStmt(n *Range) {
	var subj Value
	if in, ok := n.Subj.(Ints); ok {
		if in.To <= in.From {
			ev.fail(n, false, "ints: from must be smaller than to")
		}
		subj = Value{K: KList, Fl: FlInts}
		for i := in.From; i < in.To; i++ {
			subj.L = append(subj.L, Int(i))
		}
	} else {
		subj = ev.eval(n.Subj, n)
	}
	es, idx, ok := elements(subj)
	if !ok {
		ev.fail(n, true, "range over a non-rangeable value")
	}
	saveCtx := ev.ctx
	if n.Form > 0 && !n.Assign {
		ev.push()
		defer ev.pop()
	}
	defer func() { ev.ctx = saveCtx }()
	if n.Form == 2 && !idx {
		ev.fail(n, true, "two-variable range over a ranger without index")
	}
	bind := func(name string, v Value) {
		if name == "_" {
			return
		}
		if n.Assign {
			ev.assign(name, v, n)
		} else {
			ev.sc.vars[name] = v
		}
	}
	if len(es) == 0 {
		if n.HasElse {
			ev.list(n.Else)
		}
		return
	}
	for _, e := range es {
		switch n.Form {
		case 0:
			ev.ctx = e.v
		case 1:
			if idx {
				bind(n.K, e.k)
				ev.ctx = e.v
			} else {
				bind(n.K, e.v)
			}
		case 2:
			bind(n.K, e.k)
			bind(n.V, e.v)
		}
		ev.list(n.Body)
	}
}

func (ev *evaluator) yieldBlock(b *BlockDef, args []Arg, ctxE Expr, content []Node, hasContent bool, at interface{ Pos() (string, int) }) {
	ev.depth++
	if ev.depth > 40 {
		ev.unspec = "recursion too deep"
		panic(&Failure{Msg: "recursion too deep"})
	}
	defer func() { ev.depth-- }()
	saveSc, saveCtx, saveContent := ev.sc, ev.ctx, ev.content
	defer func() { ev.sc, ev.ctx, ev.content = saveSc, saveCtx, saveContent }()
	if len(b.Params) > 0 || len(args) > 0 {
		ev.push()
		for _, a := range args {
			ev.sc.vars[a.Name] = ev.eval(a.E, at)
		}
		for _, p := range b.Params {
			if _, ok := ev.sc.vars[p.Name]; !ok {
				if p.Default == nil {
					ev.sc.vars[p.Name] = Bool(false)
					ev.unspec = "parameter without default and without argument"
				} else {
					ev.sc.vars[p.Name] = ev.eval(p.Default, at)
				}
			}
		}
	}
	if hasContent {
		ev.content = &contentClosure{nodes: content, sc: ev.sc, prev: saveContent}
	}
	if ctxE != nil {
		ev.ctx = ev.eval(ctxE, at)
	}
	ev.list(b.Body)
}

func (ev *evaluator) yieldContent(n *YieldContent) {
	c := ev.content
	if c == nil {
		return
	}
	saveSc, saveCtx, saveContent := ev.sc, ev.ctx, ev.content
	defer func() { ev.sc, ev.ctx, ev.content = saveSc, saveCtx, saveContent }()
	ev.sc, ev.content = c.sc, c.prev
	if n.Ctx != nil {
		ev.ctx = ev.eval(n.Ctx, n)
	}
	ev.list(c.nodes)
}

func (ev *evaluator) try(n *Try) {
	saveSc, saveCtx, saveContent, saveDepth, saveDiscard := ev.sc, ev.ctx, ev.content, ev.depth, ev.discard
	buf := &strings.Builder{}
	ev.outStack = append(ev.outStack, buf)
	stackLen := len(ev.outStack)
	var failure *Failure
	func() {
		defer func() {
			if r := recover(); r != nil {
				f, ok := r.(*Failure)
				if !ok {
					panic(r)
				}
				failure = f
			}
		}()
		ev.list(n.Body)
	}()
	ev.outStack = ev.outStack[:stackLen-1]
	if failure == nil {
		ev.w(buf.String())
		return
	}
	ev.sc, ev.ctx, ev.content, ev.depth, ev.discard = saveSc, saveCtx, saveContent, saveDepth, saveDiscard
	if n.HasCatch {
		if n.CatchVar != "" {
			ev.push()
			ev.sc.vars[n.CatchVar] = Value{K: KStr, S: "‹error›"}
			defer ev.pop()
		}
		ev.list(n.Catch)
	}
}

// Eval runs the reference evaluator on the program (no escaping).
func Eval(p *Program) Result { return EvalWith(p, nil, nil) }

// EvalWith runs the reference evaluator with the Set's escaper esc and the named SafeWriters.
func EvalWith(p *Program, esc func(string) string, writers map[string]func(string) string) (res Result) {
	p.Sources(p.Newline) // fills in the file and line of every action
	ev := &evaluator{p: p, tables: map[string]map[string]*BlockDef{}, esc: esc, writers: writers}
	main := p.File(p.Main)
	root := map[string]Value{}
	for k, v := range p.Vars {
		root[k] = v
	}
	ev.sc = &scope{vars: root, blocks: ev.table(main)}
	if p.HasData {
		ev.ctx = p.Data
	}
	func() {
		defer func() {
			if r := recover(); r != nil {
				f, ok := r.(*Failure)
				if !ok {
					panic(r)
				}
				res.Err = f
			}
		}()
		ev.list(ev.rootOf(main).Body)
	}()
	res.Out = ev.out.String()
	res.ProbeLog = ev.probes
	res.VarsAfter = root
	res.Unspecified = ev.unspec
	return
}
