// Package tgen generates syntactically valid jet template sources that use every construct
// the grammar can produce (statements and expression kinds), in a given delimiter configuration.
package tgen

import (
	"fmt"
	"math/rand"
	"strings"
)

type Delims struct{ L, R, CL, CR string }

var Default = Delims{"{{", "}}", "{*", "*}"}

type G struct {
	R          *rand.Rand
	D          Delims
	MaxDepth   int
	nvar       int
	blocks     []string
	inBlock    int
	forbid     string // operator characters that clash with the delimiters
	Counts     map[string]int
	NoComments bool
	NoHeaders  bool
}

func New(r *rand.Rand, d Delims) *G {
	g := &G{R: r, D: d, MaxDepth: 4, Counts: map[string]int{}}
	g.forbid = d.L + d.R + d.CL + d.CR
	if d == Default {
		g.forbid = ""
	}
	return g
}

func (g *G) count(k string) { g.Counts[k]++ }

func (g *G) act(body string) string {
	k := g.R.Intn(6)
	if k == 0 && strings.HasSuffix(body, g.D.R[:1]) {
		k = 5 // "x[:]" + "]]" would read as "x[:" + "]]" + "]": keep a space before the closing delimiter
	}
	switch k {
	case 0:
		return g.D.L + body + g.D.R
	case 1:
		return g.D.L + "- " + body + " -" + g.D.R
	case 2:
		return g.D.L + "- " + body + " " + g.D.R
	case 3:
		return g.D.L + " " + body + " -" + g.D.R
	}
	return g.D.L + " " + body + " " + g.D.R
}

var idents = []string{"a", "b", "x", "y", "foo", "item", "_x", "v1", "名", "é"}
var fields = []string{"Name", "A", "b", "X1", "Ünï"}

func (g *G) ident() string { return idents[g.R.Intn(len(idents))] }
func (g *G) field() string { return fields[g.R.Intn(len(fields))] }

func (g *G) ok(op string) bool {
	if g.forbid == "" {
		return true
	}
	for _, c := range op {
		if strings.ContainsRune(g.forbid, c) {
			return false
		}
	}
	return true
}

func (g *G) pickOp(ops []string) string {
	for i := 0; i < 20; i++ {
		op := ops[g.R.Intn(len(ops))]
		if g.ok(op) {
			return op
		}
	}
	return "=="
}

var binOps = []string{"+", "-", "*", "/", "%", "<", "<=", ">", ">=", "==", "!=", "&&", "||", "and", "or"}

func (g *G) literal() string {
	switch g.R.Intn(12) {
	case 0:
		g.count("lit-int")
		return fmt.Sprint(g.R.Intn(100))
	case 1:
		g.count("lit-float")
		return fmt.Sprintf("%d.%d", g.R.Intn(10), g.R.Intn(100))
	case 2:
		g.count("lit-hex")
		return fmt.Sprintf("0x%x", g.R.Intn(255))
	case 3:
		g.count("lit-exp")
		return "1e3"
	case 4:
		g.count("lit-char")
		return []string{"'a'", `'\n'`, "'é'", `'\''`}[g.R.Intn(4)]
	case 5, 6:
		g.count("lit-string")
		s := []string{`"s"`, `""`, `"a b"`, `"q\"q"`, `"é日"`, `"<b>"`, `"\n"`}[g.R.Intn(7)]
		if !g.ok(strings.Trim(s, `"`)) {
			s = `"s"`
		}
		return s
	case 7:
		g.count("lit-raw")
		return "`raw`"
	case 8:
		g.count("lit-bool")
		return []string{"true", "false"}[g.R.Intn(2)]
	case 9:
		g.count("lit-nil")
		return "nil"
	case 10:
		g.count("lit-neg")
		return fmt.Sprintf("-%d", 1+g.R.Intn(9))
	}
	g.count("lit-int")
	return fmt.Sprint(g.R.Intn(10))
}

// primary returns an operand that may be followed by .field, (args), [index].
func (g *G) primary(depth int) string {
	switch g.R.Intn(6) {
	case 0:
		g.count("identifier")
		return g.ident()
	case 1:
		g.count("field")
		s := "." + g.field()
		for g.R.Intn(3) == 0 {
			s += "." + g.field()
		}
		return s
	case 2:
		g.count("dot")
		return "."
	case 3:
		g.count("chain")
		return g.ident() + "." + g.field()
	case 4:
		if depth < g.MaxDepth {
			g.count("paren-chain")
			// a parenthesised literal cannot be followed by a field: keep the inner expression non-literal
			return "(" + g.ident() + " " + g.pickOp([]string{"+", "-", "*", "==", "&&"}) + " " + g.operand(g.MaxDepth) + ")." + g.field()
		}
	}
	g.count("identifier")
	return g.ident()
}

func (g *G) args(depth int, allowSlot bool) string {
	n := g.R.Intn(4)
	var a []string
	slot := -1
	if allowSlot && n > 0 && g.R.Intn(2) == 0 {
		slot = g.R.Intn(n)
	}
	for i := 0; i < n; i++ {
		if i == slot {
			g.count("underscore-slot")
			a = append(a, "_")
		} else {
			a = append(a, g.Expr(depth+1))
		}
	}
	return strings.Join(a, ", ")
}

// operand: primary with postfix operations
func (g *G) operand(depth int) string {
	if depth >= g.MaxDepth || g.R.Intn(3) == 0 {
		if g.R.Intn(2) == 0 {
			return g.literal()
		}
		return g.primary(depth)
	}
	s := g.primary(depth)
	if s == "." {
		return s
	}
	sliced := false // a slice expression cannot be called, indexed or sliced again
	for i := g.R.Intn(3); i > 0 && !sliced; i-- {
		switch g.R.Intn(7) {
		case 0:
			g.count("call")
			s += "(" + g.args(depth, false) + ")"
		case 1:
			g.count("index")
			s += "[" + g.Expr(depth+1) + "]"
		case 2:
			g.count("slice-both")
			sliced = true
			s += "[" + g.Expr(depth+1) + ":" + g.Expr(depth+1) + "]"
		case 3:
			g.count("slice-lo")
			sliced = true
			s += "[" + g.Expr(depth+1) + ":]"
		case 4:
			g.count("slice-hi")
			sliced = true
			s += "[:" + g.Expr(depth+1) + "]"
		case 5:
			g.count("slice-none")
			sliced = true
			s += "[:]"
		case 6:
			g.count("chain-after")
			s += "." + g.field()
		}
	}
	return s
}

// Expr generates an expression (no pipes).
func (g *G) Expr(depth int) string {
	if depth >= g.MaxDepth {
		return g.operand(depth)
	}
	switch g.R.Intn(12) {
	case 0, 1, 2:
		return g.operand(depth)
	case 3, 4, 5:
		g.count("binary")
		op := g.pickOp(binOps)
		return g.Expr(depth+1) + " " + op + " " + g.Expr(depth+1)
	case 6:
		g.count("unary-minus")
		op := "-"
		if g.R.Intn(3) == 0 && g.ok("+") {
			op = "+"
		}
		if !g.ok(op) {
			return g.operand(depth)
		}
		return op + g.primaryNoLit(depth)
	case 7:
		g.count("not")
		if g.R.Intn(2) == 0 || !g.ok("!") {
			return "not " + g.operand(depth)
		}
		return "!" + g.operand(depth)
	case 8:
		g.count("ternary")
		if !g.ok("?") || !g.ok(":") {
			return g.operand(depth)
		}
		return g.Expr(depth+1) + " ? " + g.Expr(depth+1) + " : " + g.Expr(depth+1)
	case 9, 10:
		g.count("paren")
		if !g.ok("(") {
			return g.operand(depth)
		}
		return "(" + g.Expr(depth+1) + ")"
	}
	return g.operand(depth)
}

func (g *G) primaryNoLit(depth int) string {
	if g.R.Intn(3) == 0 {
		return fmt.Sprint(1 + g.R.Intn(9))
	}
	s := g.primary(depth)
	if s == "." {
		return "x"
	}
	return s
}

// pipeline: expr [| cmd]*
func (g *G) pipeline(depth int) string {
	s := g.Expr(depth)
	if g.R.Intn(4) == 0 {
		g.count("prefix-call")
		s = g.ident() + ": " + g.Expr(depth+1)
		if g.R.Intn(2) == 0 {
			s += ", " + g.Expr(depth+1)
		}
	}
	if !g.ok("|") {
		return s
	}
	for g.R.Intn(3) == 0 {
		g.count("pipe")
		switch g.R.Intn(4) {
		case 0:
			s += " | " + g.ident()
		case 1:
			s += " | " + g.ident() + ": " + g.Expr(depth+1)
		case 2:
			s += " | " + g.ident() + "(" + g.args(depth, true) + ")"
		case 3:
			s += " | ." + g.field()
		}
	}
	return s
}

func (g *G) newVar() string {
	g.nvar++
	return fmt.Sprintf("v%d", g.nvar)
}

func (g *G) setStmt(depth int) string {
	switch g.R.Intn(7) {
	case 0:
		g.count("let")
		return g.newVar() + " := " + g.Expr(depth)
	case 1:
		g.count("set")
		return g.ident() + " = " + g.Expr(depth)
	case 2:
		g.count("multi-let")
		return g.newVar() + ", " + g.newVar() + " := " + g.Expr(depth) + ", " + g.Expr(depth)
	case 3:
		g.count("lookup-let")
		return g.newVar() + ", " + g.newVar() + " := " + g.ident() + "[" + g.Expr(depth+1) + "]"
	case 4:
		g.count("discard")
		return "_ := " + g.Expr(depth)
	case 5:
		g.count("field-set")
		return "." + g.field() + " = " + g.Expr(depth)
	}
	g.count("chain-set")
	return g.ident() + "." + g.field() + " = " + g.Expr(depth)
}

func (g *G) text() string {
	t := []string{"text", " ", "\n", "a <b> & c", "é日本", "{", "}", "x\n  y", "-", "* ", "\t", "100%"}[g.R.Intn(12)]
	for _, d := range []string{g.D.L, g.D.CL} {
		if strings.Contains(t, d) || strings.Contains(t, d[:1]) {
			return "txt"
		}
	}
	return t
}

// Item generates one statement.
func (g *G) Item(depth int) string {
	k := g.R.Intn(20)
	if depth >= g.MaxDepth && k >= 8 {
		k = g.R.Intn(8)
	}
	switch k {
	case 0, 1, 2:
		g.count("text")
		return g.text()
	case 3, 4:
		g.count("action")
		return g.act(g.pipeline(depth))
	case 5:
		g.count("action-set")
		return g.act(g.setStmt(depth))
	case 6:
		g.count("action-set-pipe")
		return g.act(g.setStmt(depth) + "; " + g.pipeline(depth))
	case 7:
		if g.NoComments {
			return g.text()
		}
		g.count("comment")
		return g.D.CL + " c " + g.D.CR
	case 8, 9:
		g.count("if")
		s := g.act("if " + g.cond(depth))
		s += g.List(depth+1, 3)
		for g.R.Intn(3) == 0 {
			g.count("else-if")
			s += g.act("else if "+g.cond(depth)) + g.List(depth+1, 2)
		}
		if g.R.Intn(2) == 0 {
			g.count("else")
			s += g.act("else") + g.List(depth+1, 2)
		}
		return s + g.act("end")
	case 10, 11:
		g.count("range")
		var h string
		switch g.R.Intn(5) {
		case 0:
			h = "range " + g.Expr(depth)
		case 1:
			h = "range " + g.newVar() + " := " + g.Expr(depth)
		case 2:
			h = "range " + g.newVar() + ", " + g.newVar() + " := " + g.Expr(depth)
		case 3:
			h = "range " + g.ident() + " = " + g.Expr(depth)
		case 4:
			h = "range " + g.ident() + ", " + g.ident() + " = " + g.Expr(depth)
		}
		s := g.act(h) + g.List(depth+1, 3)
		if g.R.Intn(3) == 0 {
			g.count("range-else")
			s += g.act("else") + g.List(depth+1, 2)
		}
		return s + g.act("end")
	case 12:
		g.count("block")
		name := fmt.Sprintf("blk%d", len(g.blocks))
		g.blocks = append(g.blocks, name)
		var ps []string
		for i := g.R.Intn(3); i > 0; i-- {
			if g.R.Intn(2) == 0 {
				ps = append(ps, fmt.Sprintf("p%d=%s", i, g.Expr(depth+1)))
			} else {
				ps = append(ps, fmt.Sprintf("p%d", i))
			}
		}
		h := "block " + name + "(" + strings.Join(ps, ", ") + ")"
		if g.R.Intn(3) == 0 {
			g.count("block-ctx")
			h += " " + g.Expr(depth)
		}
		g.inBlock++
		s := g.act(h) + g.List(depth+1, 3)
		if g.R.Intn(3) == 0 {
			g.count("block-content")
			s += g.act("content") + g.List(depth+1, 2)
		}
		g.inBlock--
		return s + g.act("end")
	case 13, 14:
		if g.R.Intn(3) == 0 {
			g.count("yield-content")
			h := "yield content"
			if g.R.Intn(2) == 0 {
				g.count("yield-content-ctx")
				h += " " + g.Expr(depth)
			}
			return g.act(h)
		}
		g.count("yield")
		name := "blk0"
		if len(g.blocks) > 0 {
			name = g.blocks[g.R.Intn(len(g.blocks))]
		}
		var ps []string
		for i := g.R.Intn(3); i > 0; i-- {
			switch g.R.Intn(3) {
			case 0:
				ps = append(ps, fmt.Sprintf("p%d=%s", i, g.Expr(depth+1)))
			case 1:
				ps = append(ps, g.literal())
			case 2:
				ps = append(ps, g.ident())
			}
		}
		h := "yield " + name + "(" + strings.Join(ps, ", ") + ")"
		if g.R.Intn(3) == 0 {
			g.count("yield-ctx")
			h += " " + g.Expr(depth)
		}
		if g.R.Intn(3) == 0 {
			g.count("yield-with-content")
			return g.act(h+" content") + g.List(depth+1, 2) + g.act("end")
		}
		return g.act(h)
	case 15, 16:
		g.count("include")
		h := "include " + []string{`"/inc.jet"`, `"inc"`, g.ident(), `"/d/" + x`}[g.R.Intn(4)]
		if g.R.Intn(2) == 0 {
			g.count("include-ctx")
			h += " " + g.Expr(depth)
		}
		return g.act(h)
	case 17, 18:
		g.count("try")
		s := g.act("try") + g.List(depth+1, 3)
		switch g.R.Intn(3) {
		case 0:
			g.count("catch")
			s += g.act("catch") + g.List(depth+1, 2)
		case 1:
			g.count("catch-var")
			s += g.act("catch "+g.newVar()) + g.List(depth+1, 2)
		}
		return s + g.act("end")
	case 19:
		g.count("return")
		return g.act("return " + g.Expr(depth))
	}
	return g.text()
}

func (g *G) cond(depth int) string {
	if g.R.Intn(4) == 0 {
		g.count("if-let")
		return g.newVar() + " := " + g.Expr(depth) + "; " + g.Expr(depth)
	}
	return g.Expr(depth)
}

func (g *G) List(depth, max int) string {
	var b strings.Builder
	lastText := false
	for i := g.R.Intn(max + 1); i > 0; i-- {
		s := g.Item(depth)
		isText := !strings.HasPrefix(s, g.D.L) && !strings.HasPrefix(s, g.D.CL)
		if isText && lastText {
			continue
		}
		lastText = isText
		b.WriteString(s)
	}
	return b.String()
}

// Template generates a whole template; header clauses refer to /base.jet and /lib.jet.
func (g *G) Template(items int) string {
	var b strings.Builder
	if !g.NoHeaders && g.R.Intn(5) == 0 {
		if g.R.Intn(2) == 0 {
			g.count("extends")
			b.WriteString(g.D.L + ` extends "/base.jet" ` + g.D.R + "\n")
		}
		for g.R.Intn(2) == 0 {
			g.count("import")
			b.WriteString(g.D.L + `import "/lib.jet"` + g.D.R + "\n")
		}
	}
	b.WriteString(g.List(0, items))
	return b.String()
}
