package witness

import "reflect"

type reflectValue = reflect.Value

func (r res) ParseErrIsNil() bool {
	return r.pan == nil && (r.err == nil || len(r.err.Error()) < 6 || r.err.Error()[:6] != "PARSE:")
}
