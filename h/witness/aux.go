package witness

import "reflect"

type reflectValue = reflect.Value
