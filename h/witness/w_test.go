package witness

import (
	"bytes"
	"fmt"
	"github.com/CloudyKit/jet/v6/loaders/httpfs"
	"github.com/CloudyKit/jet/v6/loaders/multi"
	"github.com/CloudyKit/jet/v6/utils"
	"io"
	"net/http"
	"os"
	"os/exec"
	"reflect"
	"strings"
	"testing"

	"github.com/CloudyKit/jet/v6"
)

type res struct {
	out string
	err error
	pan interface{}
}

func run(opts []jet.Option, files map[string]string, name string, vars jet.VarMap, data interface{}) (r res) {
	l := jet.NewInMemLoader()
	for k, v := range files {
		l.Set(k, v)
	}
	s := jet.NewSet(l, append([]jet.Option{jet.WithSafeWriter(nil)}, opts...)...)
	defer func() {
		if p := recover(); p != nil {
			r.pan = p
		}
	}()
	t, err := s.GetTemplate(name)
	if err != nil {
		r.err = fmt.Errorf("PARSE: %w", err)
		return
	}
	var b bytes.Buffer
	r.err = t.Execute(&b, vars, data)
	r.out = b.String()
	return
}

func one(src string, vars jet.VarMap, data interface{}) res {
	return run(nil, map[string]string{"/t.jet": src}, "/t.jet", vars, data)
}

func (r res) String() string { return fmt.Sprintf("out=%q err=%v panic=%v", r.out, r.err, r.pan) }

func wantOut(t *testing.T, r res, out string) {
	t.Helper()
	if r.pan != nil || r.err != nil || r.out != out {
		t.Errorf("want %q got %s", out, r)
	}
}
func wantErr(t *testing.T, r res, sub string) {
	t.Helper()
	if r.pan != nil || r.err == nil || !strings.Contains(r.err.Error(), sub) {
		t.Errorf("want error containing %q got %s", sub, r)
	}
}

// child runs a snippet in a subprocess (for crashes)
func TestChild(t *testing.T) {
	which := os.Getenv("W_CHILD")
	if which == "" {
		t.Skip()
	}
	switch which {
	case "lexpanic":
		fmt.Println(one("{{ _é }}", nil, nil))
	case "cyc":
		fmt.Println(run(nil, map[string]string{"/a.jet": `{{extends "/a.jet"}}`}, "/a.jet", nil, nil))
	}
}

func child(t *testing.T, which string) (string, error) {
	cmd := exec.Command(os.Args[0], "-test.run", "TestChild")
	cmd.Env = append(os.Environ(), "W_CHILD="+which, "GOTRACEBACK=single")
	out, err := cmd.CombinedOutput()
	s := string(out)
	if len(s) > 600 {
		s = s[:600]
	}
	return s, err
}

func Test01LexPanic(t *testing.T) {
	out, err := child(t, "lexpanic")
	if err != nil {
		t.Errorf("child died: %v %s", err, out)
	}
}

func Test02CatchPipe(t *testing.T) {
	r := one("{{try}}a{{catch |}}b{{end}}", nil, nil)
	if r.pan != nil || r.err == nil {
		t.Errorf("%s", r)
	}
}

func Test04TrimCustomDelim(t *testing.T) {
	r := run([]jet.Option{jet.WithDelims("[[", "]]")}, map[string]string{"/t.jet": "a [[ 1 -]]  b"}, "/t.jet", nil, nil)
	wantOut(t, r, "a 1b")
	r = run([]jet.Option{jet.WithDelims("[[", "]]")}, map[string]string{"/t.jet": "a  [[- 1 -]]  b"}, "/t.jet", nil, nil)
	wantOut(t, r, "a1b")
}

func Test05CommentAfterLastAction(t *testing.T) {
	r := run([]jet.Option{jet.WithDelims("[[", "]]")}, map[string]string{"/t.jet": "a [[ 1 ]] b {* c *} d"}, "/t.jet", nil, nil)
	wantOut(t, r, "a 1 b  d")
}

func Test06LeadingWS(t *testing.T) {
	wantOut(t, one("  \n{{ 1 }} x", nil, nil), "  \n1 x")
}

func Test07MinusAfterParen(t *testing.T) {
	v := jet.VarMap{}
	v.Set("a", 5)
	v.Set("s", []int{7})
	v.Set("f", func(i int) int { return i })
	wantOut(t, one("{{ (a)-1 }}", v, nil), "4")
	wantOut(t, one("{{ f(a)-1 }}", v, nil), "4")
	wantOut(t, one("{{ s[0]-1 }}", v, nil), "6")
	wantOut(t, one("{{ (a)+1 }}", v, nil), "6")
}

func Test08SliceBounds(t *testing.T) {
	v := jet.VarMap{}
	v.Set("s", []int{1, 2, 3})
	for _, e := range []string{"s[1:9]", "s[:5]", "s[2:1]", "s[-1:]", "a[1:2]"} {
		v.Set("a", 5)
		wantErr(t, one("{{ "+e+" }}", v, nil), "")
	}
}

func Test09MapIntKey(t *testing.T) {
	v := jet.VarMap{}
	v.Set("m", map[int]string{1: "one"})
	wantOut(t, one("{{ m[1] }}", v, nil), "one")
}

type Inner struct{ Name, Other string }
type Outer struct {
	Name string
	Inner
}
type Outer2 struct {
	Inner
	Name string
}
type PInner struct{ X string }
type POuter struct{ *PInner }

func Test10Shadow(t *testing.T) {
	v := jet.VarMap{}
	v.Set("o", Outer{Name: "outer", Inner: Inner{"inner", "other"}})
	v.Set("o2", Outer2{Name: "outer", Inner: Inner{"inner", "other"}})
	wantOut(t, one("{{ o.Name }}|{{o.Other}}|{{ o2.Name }}|{{o2.Other}}", v, nil), "outer|other|outer|other")
}

func Test11NilEmbeddedPtr(t *testing.T) {
	v := jet.VarMap{}
	v.Set("o", POuter{})
	wantErr(t, one("{{ o.X }}", v, nil), "")
	v.Set("o", POuter{&PInner{"x"}})
	wantOut(t, one("{{ o.X }}", v, nil), "x")
}

func Test12IntsAlias(t *testing.T) {
	wantOut(t, one("{{last:=0}}{{first:=0}}{{range i,v := ints(0,3)}}{{if i==0}}{{first=v}}{{end}}{{last = v}}{{end}}{{first}}{{last}}", nil, nil), "02")
}

func Test13ExecExtendsChain(t *testing.T) {
	files := map[string]string{
		"/a.jet": "A[{{block x()}}ax{{end}}]{{return 1}}",
		"/b.jet": `{{extends "/a.jet"}}B`,
		"/c.jet": `{{extends "/b.jet"}}{{block x()}}cx{{end}}C`,
		"/t.jet": `{{includeIfExists("/c.jet")}}|{{exec("/c.jet")}}|{{include "/c.jet"}}`,
	}
	wantOut(t, run(nil, files, "/t.jet", nil, nil), "A[cx]|1|A[cx]")
}

func Test14ExecReturnOverwritten(t *testing.T) {
	files := map[string]string{
		"/r.jet": "{{return 1}}{{if true}}x{{end}}",
		"/t.jet": `{{exec("/r.jet")}}`,
	}
	wantOut(t, run(nil, files, "/t.jet", nil, nil), "1")
}

func Test15ContentResidue(t *testing.T) {
	l := jet.NewInMemLoader()
	l.Set("/f.jet", "{{block b(fail=false)}}[{{yield content}}{{if fail}}{{nope}}{{end}}]{{end}}{{yield b(fail=true) content}}LEAK{{end}}")
	l.Set("/p.jet", "<{{yield content}}>")
	s := jet.NewSet(l)
	f, _ := s.GetTemplate("/f.jet")
	p, _ := s.GetTemplate("/p.jet")
	var b bytes.Buffer
	for i := 0; i < 5; i++ {
		f.Execute(&bytes.Buffer{}, nil, nil)
		b.Reset()
		err := p.Execute(&b, nil, nil)
		if err != nil || b.String() != "<>" {
			t.Errorf("residue: %q %v", b.String(), err)
		}
	}
}

func Test16YieldPositional(t *testing.T) {
	v := jet.VarMap{}
	v.Set("q", 1)
	r := one("{{block b()}}x{{end}}{{yield b(q)}}", v, nil)
	if r.pan != nil {
		t.Errorf("%s", r)
	}
}

func Test17LiteralLine(t *testing.T) {
	v := jet.VarMap{}
	v.Set("a", 1)
	v.Set("s", []int{1})
	wantErr(t, one("\n\n{{ \"a\" * 2 }}", v, nil), `"/t.jet":3`)
	wantErr(t, one("\n\n{{ a: 1 }}", v, nil), `"/t.jet":3`)
	wantErr(t, one("\n\n{{ s[\"x\":1] }}", v, nil), `"/t.jet":3`)
	wantErr(t, one("\n\n{{ true.x }}", v, nil), `/t.jet:3`)
}

func Test18YieldLine(t *testing.T) {
	wantErr(t, one("\n{{yield nosuch() content}}\nx\n{{end}}", nil, nil), `"/t.jet":2`)
}

func Test19CallNonFunc(t *testing.T) {
	v := jet.VarMap{}
	v.Set("a", 1)
	wantErr(t, one("\n{{ a() }}", v, nil), `"/t.jet":2`)
}

func Test20UnaryMinusString(t *testing.T) {
	v := jet.VarMap{}
	v.Set("s", "x")
	wantErr(t, one("\n{{ -s }}", v, nil), `"/t.jet":2`)
}

func Test21BuiltinPanics(t *testing.T) {
	v := jet.VarMap{}
	for _, e := range []string{`map("a")`, `repeat(2,"ab")`, `upper(raw)`} {
		wantErr(t, one("\n{{ "+e+" }}", v, nil), ``)
	}
}

func Test22SlotWithoutPipe(t *testing.T) {
	v := jet.VarMap{}
	v.Set("f", func(a, b, c string) string { return a + b + c })
	wantErr(t, one("\n{{ f(\"x\", _, \"y\") }}", v, nil), ``)
	v.SetFunc("g", func(a jet.Arguments) (r reflectValue) { a.Get(1); return })
	wantErr(t, one("\n{{ g(\"x\", _, \"y\") }}", v, nil), ``)
}

func Test23JetFuncPos(t *testing.T) {
	wantErr(t, one("\n{{ exec(\"nosuch\") }}", nil, nil), `"/t.jet":2`)
	wantErr(t, one("\n{{ len() }}", nil, nil), `"/t.jet":2`)
}

func Test24TryState(t *testing.T) {
	wantOut(t, one("{{try}}{{range .}}{{nope}}{{end}}{{end}}{{.}}", nil, []string{"e"}), "[e]")
	wantOut(t, one("{{x:=1}}{{try}}{{if y:=2;true}}{{nope}}{{end}}{{end}}{{isset(y)}}{{x}}", nil, nil), "false1")
	wantOut(t, one("{{block c(fail=false)}}({{yield content}}{{if fail}}{{nope}}{{end}}){{end}}|{{block b()}}[{{try}}{{yield c(fail=true) content}}IN{{end}}{{end}}{{yield content}}]{{end}}|{{yield b() content}}OUT{{end}}", nil, nil), "()|[]|[OUT]")
}

func Test25LenIndirect(t *testing.T) {
	s := []int{1, 2}
	p := &s
	v := jet.VarMap{}
	v.Set("pp", &p)
	wantOut(t, one("{{ len(pp) }}", v, nil), "2")
}

func Test28IssetPipedAbsent(t *testing.T) {
	v := jet.VarMap{}
	v.Set("m", map[string]string{"a": "b"})
	wantOut(t, one("{{ m.absent | isset }}|{{ isset(m.absent) }}|{{ m.a | isset }}", v, nil), "false|false|true")
}

func Test29YieldBlockCtx(t *testing.T) {
	v := jet.VarMap{}
	v.SetFunc("yb", func(a jet.Arguments) reflectValue {
		a.Runtime().YieldBlock("b", "ctx")
		return reflectValue{}
	})
	wantOut(t, one("{{block b()}}[{{.}}]{{end}}|{{yb()}}|{{.}}", v, "top"), "[top]|[ctx]|top")
}

func Test32IfaceTruth(t *testing.T) {
	v := jet.VarMap{}
	v.Set("sl", []interface{}{false, 0, "", nil, 1, "x"})
	v.Set("f", func() interface{} { return false })
	wantOut(t, one("{{range sl}}{{if .}}T{{else}}F{{end}}{{end}}|{{if f()}}T{{else}}F{{end}}", v, nil), "FFFFTT|F")
}

type recLoader struct {
	jet.Loader
	paths []string
}

func (r *recLoader) Exists(p string) bool { r.paths = append(r.paths, p); return r.Loader.Exists(p) }

func Test26AbsNotCleaned(t *testing.T) {
	l := &recLoader{Loader: jet.NewInMemLoader()}
	s := jet.NewSet(l)
	s.GetTemplate("/a/../../etc/passwd")
	s.GetTemplate("/a//b/./c/")
	for _, p := range l.paths {
		if !strings.HasPrefix(p, "/etc/passwd") && !strings.HasPrefix(p, "/a/b/c") {
			t.Errorf("unclean %q", p)
		}
	}
}

func Test30Multi(t *testing.T) {
	dir := t.TempDir()
	os.Mkdir(dir+"/x", 0755)
	mem := jet.NewInMemLoader()
	mem.Set("/x", "MEM")
	m := multi.NewLoader(jet.NewOSFileSystemLoader(dir), mem)
	if !m.Exists("/x") {
		t.Fatal("exists")
	}
	f, err := m.Open("/x")
	if err != nil {
		t.Fatal(err)
	}
	b, err := io.ReadAll(f)
	if string(b) != "MEM" || err != nil {
		t.Errorf("got %q %v", b, err)
	}
	h, _ := httpfs.NewLoader(http.Dir(dir))
	if h.Exists("/x") {
		t.Errorf("httpfs Exists(dir) true")
	}
	os.WriteFile(dir+"/x/f.jet", []byte("F"), 0644)
	if !h.Exists("/x/f.jet") {
		t.Errorf("httpfs Exists(file) false")
	}
}

func Test31Walk(t *testing.T) {
	l := jet.NewInMemLoader()
	s := jet.NewSet(l)
	for _, src := range []string{`{{include "x"}}`, `{{include "x" .}}`, `{{try}}a{{catch e}}{{e}}{{end}}`, `{{try}}a{{end}}`, `{{return 1}}`, `{{ 1 | f(_, 2) }}`, `{{ s[1:] }}{{ s[:1] }}{{s[:]}}`, `{{ -x }}`, `{{block b()}}{{yield content}}{{end}}`, `{{block b()}}{{yield content .}}{{content}}c{{end}}`} {
		tt, err := s.Parse("/t.jet", src)
		if err != nil {
			t.Fatal(err)
		}
		func() {
			defer func() {
				if r := recover(); r != nil {
					t.Errorf("%s: panic %v", src, r)
				}
			}()
			n := 0
			utils.Walk(tt, utils.VisitorFunc(func(vc utils.VisitorContext, node jet.Node) {
				n++
				if n > 1000 {
					panic("runaway")
				}
				vc.Visit(node)
			}))
		}()
	}
}

func Test33StrayControl(t *testing.T) {
	for _, src := range []string{"{{catch e}}x{{end}}", "{{if x}}{{content}}{{end}}", "{{try}}{{else}}{{end}}", "{{range x}}{{catch}}{{end}}{{end}}", "{{block b()}}{{if x}}a{{content}}b{{end}}{{end}}"} {
		r := one(src, nil, nil)
		if r.ParseErrIsNil() {
			t.Errorf("%q accepted: %s", src, r)
		}
	}
	wantOut(t, one("{{block b()}}[{{yield content}}]{{content}}D{{end}}{{try}}{{nope}}{{catch e}}C{{end}}{{if false}}a{{else}}E{{end}}", nil, nil), "[D]CE")
}

func Test34CacheNoEmptyExt(t *testing.T) {
	inner := jet.NewInMemLoader()
	inner.Set("/p.jet", "v1")
	l := &recLoader{Loader: inner}
	s := jet.NewSet(l, jet.WithTemplateNameExtensions([]string{".jet"}))
	t1, err := s.GetTemplate("/p")
	if err != nil {
		t.Fatal(err)
	}
	n := len(l.paths)
	t2, _ := s.GetTemplate("/p")
	if t1 != t2 || len(l.paths) != n {
		t.Errorf("second lookup not served from cache: same=%v loader calls %d -> %d", t1 == t2, n, len(l.paths))
	}
}

func Test35ContentErrorUnwind(t *testing.T) {
	src := "{{block cb()}}{{x := 1}}{{if true}}{{y := 2}}{{yield content}}{{end}}{{content}}{{end}}|{{yield cb() content}}\n{{ nosuch }}{{end}}"
	wantErr(t, one(src, nil, nil), `"/t.jet":2`)
	// and inside try the real error must reach catch, with the state after the try intact
	src2 := "{{block cb()}}{{x := 1}}{{if true}}{{y := 2}}{{yield content}}{{end}}{{content}}{{end}}|{{z := 5}}{{try}}{{yield cb() content}}{{ nosuch }}{{end}}{{catch e}}[{{e}}]{{end}}{{z}}"
	r := one(src2, nil, nil)
	if r.pan != nil || r.err != nil || !strings.Contains(r.out, "nosuch") || !strings.HasSuffix(r.out, "]5") {
		t.Errorf("%s", r)
	}
}

func Test36ReturnInBlock(t *testing.T) {
	files := map[string]string{
		"/r.jet":  `{{block b()}}{{return "fromblock"}}{{end}}`,
		"/r2.jet": `{{block b()}}x{{yield content}}{{end}}{{yield b() content}}{{return "fromcontent"}}{{end}}`,
		"/r3.jet": `{{return "early"}}{{block b()}}{{return "fromblock"}}{{end}}`,
		"/t.jet":  `[{{exec("/r.jet")}}][{{exec("/r2.jet")}}][{{exec("/r3.jet")}}]`,
	}
	wantOut(t, run(nil, files, "/t.jet", nil, nil), "[fromblock][fromcontent][fromblock]")
}

func Test37RightOperandPosition(t *testing.T) {
	v := jet.VarMap{}
	v.Set("i", 7)
	v.Set("s", "str")
	for _, e := range []string{"1 < s", "2 * s", "i - s", "i + nil", "i % nil", "1.5 / s"} {
		wantErr(t, one("\n{{ "+e+" }}", v, nil), `"/t.jet":2`)
	}
	wantOut(t, one(`{{ 1 + "2" }}|{{ i * "3" }}|{{ i == s }}`, v, nil), "3|21|false")
}

func Test38UnhashableKey(t *testing.T) {
	v := jet.VarMap{}
	v.Set("m", map[interface{}]string{"a": "x"})
	v.Set("k", []int{1})
	wantErr(t, one("\n{{ m[k] }}", v, nil), `"/t.jet":2`)
	wantOut(t, one(`{{ m["a"] }}|{{ isset(m[k]) }}`, v, nil), "x|false")
	v.Set("k2", struct {
		Kind string
		ID   interface{}
	}{"a", []int{7}})
	wantErr(t, one("\n{{ m[k2] }}", v, nil), `"/t.jet":2`)
	v.Set("mp", map[[2]interface{}]string{{"a", 1}: "x"})
	v.Set("kp", [2]interface{}{"a", map[string]int{"z": 1}})
	wantErr(t, one("\n{{ mp[kp] }}", v, nil), `"/t.jet":2`)
}

func Test39PipedIntoVariadicOnly(t *testing.T) {
	v := jet.VarMap{}
	v.Set("join", func(parts ...string) string { return strings.Join(parts, "+") })
	v.Set("sum", func(xs ...int) int {
		s := 0
		for _, x := range xs {
			s += x
		}
		return s
	})
	wantOut(t, one(`{{ "a" | join }}|{{ "a" | join: "b", "c" }}|{{ join("a", "b") }}|{{ 1 | sum: 2, 3 }}|{{ 4 | sum }}`, v, nil), "a|a+b+c|a+b|6|4")
}

func Test40StrayAmpersand(t *testing.T) {
	for _, src := range []string{"{{ a&.B }}", "{{ .A&.B.C }}", "{{ a & b }}", "{{ x &y }}"} {
		r := one(src, nil, nil)
		if r.pan != nil || r.err == nil || !strings.HasPrefix(r.err.Error(), "PARSE:") {
			t.Errorf("%q: %s", src, r)
		}
	}
	v := jet.VarMap{}
	v.Set("a", true).Set("b", false)
	wantOut(t, one("{{ a && b }}|{{ a&&b }}", v, nil), "false|false")
}

type w41 struct {
	Err  error
	Str  fmt.Stringer
	Any  interface{}
	Real error
}

func Test41NilErrorField(t *testing.T) {
	v := jet.VarMap{}
	v.Set("r", w41{Real: fmt.Errorf("boom")})
	wantOut(t, one("[{{ r.Err }}][{{ r.Str }}][{{ r.Any }}][{{ r.Real }}][{{ r.Err | raw }}][{{ isset(r.Err) }}]", v, nil), "[<nil>][<nil>][<nil>][boom][<nil>][false]")
}

type w44ranger struct {
	items []string
	i     int
}

func (r *w44ranger) ProvidesIndex() bool { return false }
func (r *w44ranger) Range() (k, v reflect.Value, end bool) {
	if r.i >= len(r.items) {
		return reflect.Value{}, reflect.Value{}, true
	}
	v = reflect.ValueOf(r.items[r.i])
	r.i++
	return
}

type w44countdown []int

func (c w44countdown) ProvidesIndex() bool { return true }
func (c w44countdown) Range() (k, v reflect.Value, end bool) {
	if c[0] <= 0 {
		return reflect.Value{}, reflect.Value{}, true
	}
	k, v = reflect.ValueOf(c[1]), reflect.ValueOf(c[0])
	c[0]--
	c[1]++
	return
}

// custom Rangers reached through an interface value (map[string]interface{} data, []interface{} elements)
func Test44RangerBehindInterface(t *testing.T) {
	data := map[string]interface{}{"r": &w44ranger{items: []string{"p", "q"}}, "c": w44countdown{2, 0}}
	wantOut(t, one(`{{range .r}}<{{.}}>{{end}}|{{range i, v := .c}}<{{i}}={{v}}>{{end}}`, nil, data), "<p><q>|<0=2><1=1>")
	v := jet.VarMap{}
	v.Set("xs", []interface{}{&w44ranger{items: []string{"a"}}, w44countdown{1, 5}, w44countdown{0, 0}})
	wantOut(t, one(`{{range xs}}{{range v := .}}<{{v}}>{{else}}E{{end}};{{end}}`, v, nil), "<a>;<5>;E;")
}

func Test45RangeAssignDiscard(t *testing.T) {
	v := jet.VarMap{}
	v.Set("xs", []string{"a", "b"})
	wantOut(t, one(`{{k := 9}}{{range k, _ = xs}}[{{k}}|{{.}}]{{end}}|{{k}}`, v, "ctx"), "[0|ctx][1|ctx]|1")
	wantOut(t, one(`{{k := 9}}{{range _, k = xs}}[{{k}}|{{.}}]{{end}}|{{k}}`, v, "ctx"), "[a|ctx][b|ctx]|b")
}

type w46A struct{ X string }
type w46C struct{ X string }
type w46B struct{ w46C }
type W46S struct {
	*w46A
	w46B
}
type W46A struct{ X string }
type W46C struct{ X string }
type W46B struct{ W46C }
type W46T struct {
	*W46A
	W46B
}

func Test46PromotedThroughPointerVsDeeperValue(t *testing.T) {
	s := W46T{W46A: &W46A{X: "shallow-through-pointer"}, W46B: W46B{W46C{X: "deeper-by-value"}}}
	if s.X != "shallow-through-pointer" {
		t.Fatal("Go disagrees")
	}
	wantOut(t, one(`{{ .X }}|{{ .["X"] }}`, nil, s), "shallow-through-pointer|shallow-through-pointer")
	wantOut(t, one(`{{ .X }}`, nil, &s), "shallow-through-pointer")
}

func Test47UnpositionedReflectErrors(t *testing.T) {
	v := jet.VarMap{}
	v.Set("m", map[string]int{"a": 1}).Set("xs", []string{"x"})
	for _, src := range []string{"\n{{ m[nil] }}", "\n{{ xs[nil] }}", "\n{{ 1 + m.nokey(1) }}", "\n{{ m.nokey(1) }}", "\n{{ v, ok := m[nil] }}", "\n{{ isset(m[nil]) }}ok"} {
		r := one(src, v, nil)
		t.Logf("%q -> %s", src, r)
	}
}
