package main

import (
	"verifh/internal/fw"
	_ "verifh/internal/hook"
	_ "verifh/internal/props"
)

func main() { fw.Main() }
