#!/bin/bash
# Builds the harness once (warms the Go build cache, including the race-detector runtime), offline.
set -e
cd "$(dirname "$0")"
export GOFLAGS=-mod=mod GOPROXY=off GOSUMDB=off GOTOOLCHAIN=local
mkdir -p bin evidence
cd h
go build -tags verif -o ../bin/vcheck ./cmd/vcheck
go build -tags verif -race -o ../bin/vcheck-race ./cmd/vcheck
echo setup ok
